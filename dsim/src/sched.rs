//! Baton-passing scheduler over real OS threads, virtual clock, virtual channels and virtual UDP.
//!
//! Exactly one simulation thread runs at a time. Every hook reached by the code under test is a
//! point at which the scheduler (and nothing else) decides who continues. All decisions are drawn
//! from one PRNG stream derived from the run seed, so `(scenario, sched spec, code)` determines the
//! execution.

use crate::rng::Rng;
use parking_lot::{Condvar, Mutex};
use serde::{Deserialize, Serialize};
use stateright::verif_hooks::{self as vh, Hooks};
use std::collections::{BTreeMap, HashMap, VecDeque};
use std::net::{SocketAddr, SocketAddrV4};
use std::sync::Arc;
use std::time::Duration;

/// Panic payload used to unwind simulation threads when a run is aborted.
pub struct SimShutdown;

#[derive(Clone, Debug, Serialize, Deserialize, PartialEq)]
pub enum Policy {
    /// Uniformly random among enabled threads; stays on the current one with probability
    /// `stick_pct`/100 when it is enabled.
    Random { stick_pct: u8 },
    /// PCT-style: random distinct priorities, `depth` priority change points over `horizon` steps.
    Pct { depth: u8, horizon: u32 },
    /// Round robin with a quantum of `quantum` steps.
    RoundRobin { quantum: u16 },
}

#[derive(Clone, Debug, Serialize, Deserialize)]
pub struct SchedSpec {
    pub seed: u64,
    pub policy: Policy,
    /// Probability (per million steps) that a step's clock increment is a long stall (0.1–5 s).
    pub stall_ppm: u32,
    /// Step budget; exceeding it aborts the run.
    pub budget: u64,
    /// Value returned by the `block_size` seam (0 = keep the library default).
    pub block_size: usize,
    /// Wall-clock jumps: (at step, signed nanoseconds).
    #[serde(default)]
    pub wall_jumps: Vec<(u64, i64)>,
    /// When the wall clock first reaches this many ns, switch to fair round-robin with constant
    /// 1 ms increments (used to judge bounded liveness "after faults stop").
    #[serde(default)]
    pub calm_after_wall_ns: Option<u64>,
    /// UDP fault rates.
    #[serde(default)]
    pub udp: UdpSpec,
}

#[derive(Clone, Debug, Default, Serialize, Deserialize)]
pub struct UdpSpec {
    pub drop_pct: u8,
    pub dup_pct: u8,
    /// Maximum extra delay in µs (uniform); creates reordering.
    pub max_delay_us: u32,
    pub send_err_pct: u8,
    pub recv_err_pct: u8,
}

#[derive(Clone, Debug, PartialEq)]
enum St {
    Runnable,
    Mutex(usize),
    Cv(usize, usize),
    Sleep(u64),
    Recv(usize),
    Send(usize),
    Join(usize),
    ScopeWait(Vec<usize>),
    UdpRecv(usize, Option<u64>),
    Drain,
    /// Enabled only when no other thread can run (used by the harness to wait for quiescence).
    WaitIdle,
    Finished,
}

struct Th {
    st: St,
    park: Arc<(Mutex<bool>, Condvar)>,
    name: String,
    prio: u64,
    sleeping_owner_noted: bool,
}

struct Chan {
    len: usize,
    bound: Option<usize>,
    sender_alive: bool,
    receiver_alive: bool,
}

#[derive(Clone, Debug, PartialEq, Eq)]
pub struct Datagram {
    pub deliver_at: u64,
    pub bytes: Arc<Vec<u8>>,
    pub from: SocketAddrV4,
    pub id: u64,
    /// tie-breaker among copies of one datagram
    pub copy: u8,
}
impl Ord for Datagram {
    fn cmp(&self, o: &Self) -> std::cmp::Ordering {
        // earliest first when wrapped in `Reverse`
        (self.deliver_at, self.id, self.copy).cmp(&(o.deliver_at, o.id, o.copy))
    }
}
impl PartialOrd for Datagram {
    fn partial_cmp(&self, o: &Self) -> Option<std::cmp::Ordering> {
        Some(self.cmp(o))
    }
}

struct Sock {
    addr: SocketAddrV4,
    open: bool,
    queue: std::collections::BinaryHeap<std::cmp::Reverse<Datagram>>,
}

#[derive(Clone, Debug, Serialize)]
pub enum UdpEvent {
    Bind { sock: usize, addr: String, t: u64 },
    /// An attempt to send as seen at the seam (before faults are applied).
    SendTo { sock: usize, from: String, to: String, bytes: Arc<Vec<u8>>, t: u64, id: u64, outcome: &'static str },
    /// A datagram handed to `recv_from`.
    Recv { sock: usize, to: String, from: String, bytes: Arc<Vec<u8>>, t: u64, id: u64 },
    RecvTimeout { sock: usize, t: u64 },
    RecvErr { sock: usize, t: u64 },
}

#[derive(Clone, Debug, Default, Serialize)]
pub struct Stats {
    pub steps: u64,
    pub switches: u64,
    pub threads: usize,
    pub cv_waits: u64,
    pub cv_notifies: u64,
    pub mutex_blocked: u64,
    pub sleeps: u64,
    pub time_jumps: u64,
    pub stalls: u64,
    pub wall_jumps: u64,
    pub chan_sends: u64,
    pub chan_blocks: u64,
    pub udp_sent: u64,
    pub udp_dropped: u64,
    pub udp_duplicated: u64,
    pub udp_send_errs: u64,
    pub udp_recv_errs: u64,
    pub udp_timeouts: u64,
    pub yields: BTreeMap<&'static str, u64>,
    /// A thread was blocked on a mutex while its owner was asleep.
    pub blocked_on_sleeping_owner: u64,
    pub final_clock_ns: u64,
    pub calm_started_at_step: Option<u64>,
    pub steps_after_calm: u64,
}

#[derive(Clone, Debug, PartialEq, Serialize)]
pub enum AbortReason {
    Budget,
    Deadlock(String),
    Requested,
}

struct Inner {
    spec: SchedSpec,
    threads: Vec<Th>,
    current: usize,
    rng: Rng,
    clock: u64,
    wall_offset: i64,
    owner: HashMap<usize, usize>,
    cvq: HashMap<usize, Vec<usize>>,
    chans: Vec<Chan>,
    socks: Vec<Sock>,
    udp_log: Vec<UdpEvent>,
    next_dgram: u64,
    ids: HashMap<usize, usize>,
    aborting: Option<AbortReason>,
    trace_hash: u64,
    stats: Stats,
    rr_left: u16,
    pct_changes: Vec<u64>,
    calm: bool,
    user_rng: Rng,
}

pub struct Sched {
    inner: Mutex<Inner>,
}

static CURRENT: Mutex<Option<Arc<Sched>>> = Mutex::new(None);
thread_local!(static TID: std::cell::Cell<usize> = const { std::cell::Cell::new(usize::MAX) });

fn fnv(h: &mut u64, v: u64) {
    *h = (*h ^ v).wrapping_mul(0x0000_0100_0000_01b3);
}

impl Inner {
    fn dense(&mut self, raw: usize) -> usize {
        let n = self.ids.len();
        *self.ids.entry(raw).or_insert(n)
    }
    fn ev(&mut self, me: usize, kind: u64, obj: usize) {
        let mut h = self.trace_hash;
        fnv(&mut h, me as u64 + 1);
        fnv(&mut h, kind);
        fnv(&mut h, obj as u64);
        self.trace_hash = h;
    }
    fn wall(&self) -> u64 {
        (self.clock as i64 + self.wall_offset).max(0) as u64
    }
    fn enabled(&self, i: usize) -> bool {
        match &self.threads[i].st {
            St::Runnable => true,
            St::Mutex(m) => !self.owner.contains_key(m),
            St::Cv(..) => false,
            St::Sleep(u) => self.clock >= *u || self.aborting.is_some(),
            St::Recv(c) => {
                let c = &self.chans[*c];
                c.len > 0 || !c.sender_alive || self.aborting.is_some()
            }
            St::Send(c) => {
                let c = &self.chans[*c];
                !c.receiver_alive
                    || c.bound.map(|b| c.len < b.max(1)).unwrap_or(true)
                    || self.aborting.is_some()
            }
            St::Join(t) => self.threads[*t].st == St::Finished || self.aborting.is_some(),
            St::ScopeWait(ts) => {
                ts.iter().all(|t| self.threads[*t].st == St::Finished)
            }
            St::UdpRecv(s, deadline) => {
                self.aborting.is_some()
                    || deadline.map(|d| self.clock >= d).unwrap_or(false)
                    || self.socks[*s].queue.peek().map(|d| d.0.deliver_at <= self.clock).unwrap_or(false)
            }
            St::WaitIdle => (0..self.threads.len()).all(|j| j == i || self.threads[j].st == St::WaitIdle || !self.enabled(j)),
            St::Drain => self
                .threads
                .iter()
                .enumerate()
                .all(|(j, t)| j == i || t.st == St::Finished),
            St::Finished => false,
        }
    }
    fn next_wake(&self) -> Option<u64> {
        let mut best: Option<u64> = None;
        let mut upd = |v: u64| {
            best = Some(best.map_or(v, |b: u64| b.min(v)));
        };
        for t in &self.threads {
            match &t.st {
                St::Sleep(u) => upd(*u),
                St::UdpRecv(s, deadline) => {
                    if let Some(d) = deadline {
                        upd(*d)
                    }
                    if let Some(d) = self.socks[*s].queue.peek() {
                        upd(d.0.deliver_at)
                    }
                }
                _ => {}
            }
        }
        best
    }
    fn describe(&self) -> String {
        self.threads
            .iter()
            .enumerate()
            .map(|(i, t)| {
                let st = match &t.st {
                    St::Mutex(m) => format!(
                        "mutex(owner={})",
                        self.owner.get(m).map(|o| self.threads[*o].name.clone()).unwrap_or_default()
                    ),
                    St::Cv(..) => "condvar".to_string(),
                    St::Recv(_) => "recv".to_string(),
                    St::Send(_) => "send".to_string(),
                    St::Join(t) => format!("join({})", self.threads[*t].name),
                    St::ScopeWait(_) => "scope".to_string(),
                    St::UdpRecv(..) => "udp-recv".to_string(),
                    St::Drain => "drain".to_string(),
                    St::WaitIdle => "wait-idle".to_string(),
                    St::Finished => "finished".to_string(),
                    St::Runnable => "runnable".to_string(),
                    St::Sleep(_) => "sleep".to_string(),
                };
                format!("{}#{}:{}", t.name, i, st)
            })
            .collect::<Vec<_>>()
            .join(" ")
    }
    fn start_abort(&mut self, why: AbortReason) {
        if self.aborting.is_some() {
            return;
        }
        self.aborting = Some(why);
        // condvar waiters must re-own their mutex before they can unwind
        let cvq = std::mem::take(&mut self.cvq);
        for (_, q) in cvq {
            for t in q {
                if let St::Cv(_, m) = self.threads[t].st.clone() {
                    self.threads[t].st = St::Mutex(m);
                }
            }
        }
    }
    fn tick(&mut self) {
        self.stats.steps += 1;
        if self.calm {
            self.clock += 1_000_000;
            self.stats.steps_after_calm += 1;
            return;
        }
        let r = self.rng.below(1_000_000) as u32;
        if r < self.spec.stall_ppm {
            self.stats.stalls += 1;
            self.clock += self.rng.range(100_000_000, 5_000_000_000);
        } else {
            self.clock += self.rng.range(1_000, 50_000);
        }
        let step = self.stats.steps;
        for i in 0..self.spec.wall_jumps.len() {
            if self.spec.wall_jumps[i].0 == step {
                self.wall_offset += self.spec.wall_jumps[i].1;
                self.stats.wall_jumps += 1;
            }
        }
        if let Some(c) = self.spec.calm_after_wall_ns {
            if self.wall() >= c {
                self.calm = true;
                self.stats.calm_started_at_step = Some(step);
            }
        }
    }
    fn choose(&mut self, me: usize, me_enabled: bool, enabled: &[usize]) -> usize {
        if enabled.len() == 1 {
            return enabled[0];
        }
        if self.calm || self.aborting.is_some() {
            // fair round robin: next enabled after current
            return *enabled.iter().find(|&&i| i > me).unwrap_or(&enabled[0]);
        }
        match self.spec.policy.clone() {
            Policy::Random { stick_pct } => {
                if me_enabled && (self.rng.below(100) as u8) < stick_pct {
                    me
                } else {
                    enabled[self.rng.usize_below(enabled.len())]
                }
            }
            Policy::RoundRobin { quantum } => {
                if me_enabled && self.rr_left > 0 {
                    self.rr_left -= 1;
                    me
                } else {
                    self.rr_left = quantum;
                    *enabled.iter().find(|&&i| i > me).unwrap_or(&enabled[0])
                }
            }
            Policy::Pct { .. } => {
                let step = self.stats.steps;
                if self.pct_changes.contains(&step) && me_enabled {
                    // demote the running thread below everything else
                    let low = self.threads.iter().map(|t| t.prio).min().unwrap_or(0);
                    self.threads[me].prio = low.saturating_sub(1);
                }
                *enabled.iter().max_by_key(|&&i| (self.threads[i].prio, usize::MAX - i)).unwrap()
            }
        }
    }
}

impl Sched {
    pub fn new(spec: SchedSpec) -> Arc<Self> {
        let mut rng = Rng::new(spec.seed);
        let user_rng = rng.fork("user");
        let mut pct_changes = Vec::new();
        if let Policy::Pct { depth, horizon } = spec.policy {
            for _ in 0..depth {
                pct_changes.push(rng.range(1, horizon.max(2) as u64));
            }
        }
        let prio0 = 1_000_000 + rng.below(1_000_000);
        Arc::new(Sched {
            inner: Mutex::new(Inner {
                spec,
                threads: vec![Th {
                    st: St::Runnable,
                    park: Arc::new((Mutex::new(false), Condvar::new())),
                    name: "main".into(),
                    prio: prio0,
                    sleeping_owner_noted: false,
                }],
                current: 0,
                rng,
                clock: 0,
                wall_offset: 0,
                owner: HashMap::new(),
                cvq: HashMap::new(),
                chans: Vec::new(),
                socks: Vec::new(),
                udp_log: Vec::new(),
                next_dgram: 0,
                ids: HashMap::new(),
                aborting: None,
                trace_hash: 0xcbf2_9ce4_8422_2325,
                stats: Stats::default(),
                rr_left: 0,
                pct_changes,
                calm: false,
                user_rng,
            }),
        })
    }

    /// Installs this scheduler and makes the calling thread simulation thread 0.
    pub fn enter(self: &Arc<Self>) {
        vh::install(Some(self.clone() as Arc<dyn Hooks>));
        *CURRENT.lock() = Some(self.clone());
        TID.with(|t| t.set(0));
        vh::set_in_sim(true);
    }

    /// Waits (in simulation) until every other simulation thread has finished, aborting those that
    /// cannot finish on their own when `abort` is set; then uninstalls the scheduler.
    /// Returns `Err` when threads were left blocked although no abort was requested.
    pub fn leave(self: &Arc<Self>, abort: bool) -> Result<(), String> {
        let me = 0;
        let mut leaked = Ok(());
        {
            let mut g = self.inner.lock();
            if abort {
                g.start_abort(AbortReason::Requested);
            }
            g.threads[me].st = St::Drain;
            self.reschedule(g, me, false);
            let g = self.inner.lock();
            if let Some(AbortReason::Deadlock(d)) = &g.aborting {
                if !abort {
                    leaked = Err(d.clone());
                }
            }
        }
        vh::set_in_sim(false);
        TID.with(|t| t.set(usize::MAX));
        vh::install(None);
        *CURRENT.lock() = None;
        let mut g = self.inner.lock();
        g.stats.final_clock_ns = g.clock;
        g.stats.threads = g.threads.len();
        leaked
    }

    pub fn stats(&self) -> Stats {
        self.inner.lock().stats.clone()
    }
    pub fn trace_hash(&self) -> u64 {
        self.inner.lock().trace_hash
    }
    pub fn aborted(&self) -> Option<AbortReason> {
        self.inner.lock().aborting.clone()
    }
    pub fn clock_ns(&self) -> u64 {
        self.inner.lock().clock
    }
    pub fn wall_ns(&self) -> u64 {
        self.inner.lock().wall()
    }
    pub fn steps(&self) -> u64 {
        self.inner.lock().stats.steps
    }
    pub fn udp_log(&self) -> Vec<UdpEvent> {
        self.inner.lock().udp_log.clone()
    }
    pub fn request_abort(&self) {
        self.inner.lock().start_abort(AbortReason::Requested);
    }
    /// Harness-side randomness that is part of the schedule stream (e.g. when to poke).
    pub fn user_below(&self, n: u64) -> u64 {
        self.inner.lock().user_rng.below(n)
    }
    /// Yields until no other simulation thread can run (all blocked, asleep or finished).
    pub fn wait_idle(&self) {
        let me = Self::me();
        {
            let mut g = self.inner.lock();
            g.threads[me].st = St::WaitIdle;
            self.reschedule(g, me, false);
        }
        self.check_abort(me);
    }
    /// A harness-side scheduling point.
    pub fn harness_yield(&self) {
        self.yield_point("harness", 0);
    }
    /// Injects a datagram from outside the simulated actors.
    pub fn inject_datagram(&self, to: SocketAddrV4, from: SocketAddrV4, bytes: Vec<u8>, delay_ns: u64) -> Option<u64> {
        let mut g = self.inner.lock();
        let at = g.clock + delay_ns;
        let id = g.next_dgram;
        g.next_dgram += 1;
        let now = g.clock;
        let Some(si) = g.socks.iter().position(|s| s.open && s.addr == to) else { return None };
        let bytes = Arc::new(bytes);
        g.socks[si].queue.push(std::cmp::Reverse(Datagram { deliver_at: at, bytes: bytes.clone(), from, id, copy: 0 }));
        g.udp_log.push(UdpEvent::SendTo {
            sock: usize::MAX,
            from: from.to_string(),
            to: to.to_string(),
            bytes,
            t: now,
            id,
            outcome: "injected",
        });
        Some(id)
    }

    /// The scheduler of the running simulation, if any.
    pub fn current() -> Option<Arc<Sched>> {
        CURRENT.lock().clone()
    }
    /// "Faults stop": from now on fair round-robin with constant clock increments.
    pub fn calm_now(&self) {
        let mut g = self.inner.lock();
        if !g.calm {
            g.calm = true;
            let step = g.stats.steps;
            g.stats.calm_started_at_step = Some(step);
        }
    }
    pub fn current_tid() -> Option<usize> {
        let t = TID.with(|t| t.get());
        if t == usize::MAX {
            None
        } else {
            Some(t)
        }
    }

    fn me() -> usize {
        let t = TID.with(|t| t.get());
        assert!(t != usize::MAX, "hook called from a thread outside the simulation");
        t
    }

    fn check_abort(&self, me: usize) {
        if std::thread::panicking() {
            return;
        }
        let g = self.inner.lock();
        if g.aborting.is_some() {
            drop(g);
            std::panic::resume_unwind(Box::new(SimShutdown));
        }
    }

    /// Called with the caller's state already updated. Picks who runs next and returns when the
    /// caller holds the baton again (or at once when `finished`).
    fn reschedule(&self, mut g: parking_lot::MutexGuard<'_, Inner>, me: usize, finished: bool) {
        loop {
            g.tick();
            if g.stats.steps > g.spec.budget && g.aborting.is_none() {
                g.start_abort(AbortReason::Budget);
            }
            let enabled: Vec<usize> = (0..g.threads.len()).filter(|&i| g.enabled(i)).collect();
            if enabled.is_empty() {
                if g.threads.iter().all(|t| t.st == St::Finished) {
                    return;
                }
                match g.next_wake() {
                    Some(u) if u > g.clock => {
                        g.clock = u;
                        g.stats.time_jumps += 1;
                        continue;
                    }
                    _ => {}
                }
                if g.aborting.is_some() {
                    // cannot make progress even while aborting: give up on this process
                    eprintln!("dsim: stuck while aborting: {}", g.describe());
                    std::process::exit(3);
                }
                let d = g.describe();
                g.start_abort(AbortReason::Deadlock(d));
                continue;
            }
            // probe: a thread blocked on a mutex whose owner sleeps
            for i in 0..g.threads.len() {
                if let St::Mutex(m) = g.threads[i].st.clone() {
                    if let Some(&o) = g.owner.get(&m) {
                        if matches!(g.threads[o].st, St::Sleep(_)) && !g.threads[i].sleeping_owner_noted {
                            g.threads[i].sleeping_owner_noted = true;
                            g.stats.blocked_on_sleeping_owner += 1;
                        }
                    }
                }
            }
            let me_enabled = !finished && enabled.contains(&me);
            let next = g.choose(me, me_enabled, &enabled);
            fnv(&mut g.trace_hash, next as u64 + 0x100);
            match g.threads[next].st.clone() {
                St::Mutex(m) => {
                    g.owner.insert(m, next);
                }
                _ => {}
            }
            g.threads[next].sleeping_owner_noted = false;
            // the woken thread inspects the resource it waited for itself
            g.threads[next].st = St::Runnable;
            g.current = next;
            if next == me {
                return;
            }
            g.stats.switches += 1;
            let p = g.threads[next].park.clone();
            let myp = g.threads[me].park.clone();
            drop(g);
            {
                let mut f = p.0.lock();
                *f = true;
                p.1.notify_one();
            }
            if finished {
                return;
            }
            let mut f = myp.0.lock();
            while !*f {
                myp.1.wait(&mut f);
            }
            *f = false;
            return;
        }
    }
}

impl Hooks for Sched {
    fn yield_point(&self, what: &'static str, obj: usize) {
        let me = Self::me();
        {
            let mut g = self.inner.lock();
            let o = if obj == 0 { 0 } else { g.dense(obj) };
            g.ev(me, 1, o);
            *g.stats.yields.entry(what).or_insert(0) += 1;
            self.reschedule(g, me, false);
        }
        self.check_abort(me);
    }
    fn mutex_lock(&self, id: usize) {
        let me = Self::me();
        {
            let mut g = self.inner.lock();
            let o = g.dense(id);
            g.ev(me, 2, o);
            if g.owner.contains_key(&id) {
                g.stats.mutex_blocked += 1;
            }
            g.threads[me].st = St::Mutex(id);
            self.reschedule(g, me, false);
        }
        // we own it now; when aborting, give it back before unwinding (no real guard exists yet)
        if !std::thread::panicking() {
            let mut g = self.inner.lock();
            if g.aborting.is_some() {
                g.owner.remove(&id);
                drop(g);
                std::panic::resume_unwind(Box::new(SimShutdown));
            }
        }
    }
    fn mutex_unlock(&self, id: usize) {
        let me = Self::me();
        let mut g = self.inner.lock();
        let o = g.dense(id);
        g.ev(me, 3, o);
        let owner = g.owner.remove(&id);
        debug_assert_eq!(owner, Some(me));
        if std::thread::panicking() || g.aborting.is_some() {
            return;
        }
        self.reschedule(g, me, false);
        // never raise from an unlock (it runs inside Drop)
    }
    fn cv_wait(&self, cv: usize, m: usize) {
        let me = Self::me();
        {
            let mut g = self.inner.lock();
            let o = g.dense(cv);
            g.ev(me, 4, o);
            g.stats.cv_waits += 1;
            let owner = g.owner.remove(&m);
            debug_assert_eq!(owner, Some(me));
            if g.aborting.is_some() {
                g.threads[me].st = St::Mutex(m);
            } else {
                g.cvq.entry(cv).or_default().push(me);
                g.threads[me].st = St::Cv(cv, m);
            }
            self.reschedule(g, me, false);
        }
        // we own the mutex again (the shim's `unlocked` re-locks the real one on unwind)
        self.check_abort(me);
    }
    fn cv_notify(&self, cv: usize, all: bool) {
        let me = Self::me();
        let mut g = self.inner.lock();
        let o = g.dense(cv);
        g.ev(me, 5, o);
        g.stats.cv_notifies += 1;
        let mut q = g.cvq.remove(&cv).unwrap_or_default();
        let woken: Vec<usize> = if all {
            std::mem::take(&mut q)
        } else if q.is_empty() {
            vec![]
        } else if q.len() == 1 {
            vec![q.remove(0)]
        } else {
            let r = g.rng.usize_below(q.len());
            vec![q.remove(r)]
        };
        if !q.is_empty() {
            g.cvq.insert(cv, q);
        }
        for t in woken {
            if let St::Cv(_, m) = g.threads[t].st.clone() {
                g.threads[t].st = St::Mutex(m);
            }
        }
    }
    fn spawn_token(&self, name: Option<&str>) -> u64 {
        let mut g = self.inner.lock();
        let prio = 1_000_000 + g.rng.below(1_000_000);
        let n = g.threads.len();
        g.threads.push(Th {
            st: St::Runnable,
            park: Arc::new((Mutex::new(false), Condvar::new())),
            name: name.map(|s| s.to_string()).unwrap_or_else(|| format!("t{}", n)),
            prio,
            sleeping_owner_noted: false,
        });
        let me = TID.with(|t| t.get());
        g.ev(me, 6, n);
        n as u64
    }
    fn thread_enter(&self, token: u64) {
        TID.with(|t| t.set(token as usize));
        let p = self.inner.lock().threads[token as usize].park.clone();
        let mut f = p.0.lock();
        while !*f {
            p.1.wait(&mut f);
        }
        *f = false;
    }
    fn thread_exit(&self, tok: u64) {
        let me = tok as usize;
        let mut g = self.inner.lock();
        g.ev(me, 7, 0);
        g.threads[me].st = St::Finished;
        self.reschedule(g, me, true);
        TID.with(|t| t.set(usize::MAX));
    }
    fn join_wait(&self, token: u64) {
        let me = Self::me();
        {
            let mut g = self.inner.lock();
            g.ev(me, 8, token as usize);
            g.threads[me].st = St::Join(token as usize);
            self.reschedule(g, me, false);
        }
        self.check_abort(me);
    }
    fn thread_finished(&self, token: u64) -> bool {
        self.yield_point("thread.is_finished", 0);
        self.inner.lock().threads[token as usize].st == St::Finished
    }
    fn now(&self, wall: bool) -> Duration {
        let mut g = self.inner.lock();
        g.clock += 1;
        Duration::from_nanos(if wall { g.wall() } else { g.clock })
    }
    fn sleep(&self, d: Duration) {
        let me = Self::me();
        {
            let mut g = self.inner.lock();
            g.ev(me, 9, 0);
            g.stats.sleeps += 1;
            let u = g.clock.saturating_add(d.as_nanos().min(u64::MAX as u128) as u64);
            g.threads[me].st = St::Sleep(u);
            self.reschedule(g, me, false);
        }
        self.check_abort(me);
    }
    fn block_size(&self, default: usize) -> usize {
        let b = self.inner.lock().spec.block_size;
        if b == 0 {
            default
        } else {
            b
        }
    }
    fn chan_new(&self, bound: Option<usize>) -> usize {
        let mut g = self.inner.lock();
        g.chans.push(Chan { len: 0, bound, sender_alive: true, receiver_alive: true });
        g.chans.len() - 1
    }
    fn chan_send(&self, ch: usize) -> Result<(), ()> {
        let me = Self::me();
        {
            let mut g = self.inner.lock();
            g.ev(me, 10, ch);
            g.stats.chan_sends += 1;
            let c = &g.chans[ch];
            if c.receiver_alive && c.bound.map(|b| c.len >= b.max(1)).unwrap_or(false) {
                g.stats.chan_blocks += 1;
            }
            g.threads[me].st = St::Send(ch);
            self.reschedule(g, me, false);
        }
        self.check_abort(me);
        let mut g = self.inner.lock();
        g.threads[me].st = St::Runnable;
        if !g.chans[ch].receiver_alive {
            return Err(());
        }
        g.chans[ch].len += 1;
        Ok(())
    }
    fn chan_recv(&self, ch: usize) -> Result<(), ()> {
        let me = Self::me();
        {
            let mut g = self.inner.lock();
            g.ev(me, 11, ch);
            g.threads[me].st = St::Recv(ch);
            self.reschedule(g, me, false);
        }
        self.check_abort(me);
        let mut g = self.inner.lock();
        g.threads[me].st = St::Runnable;
        if g.chans[ch].len > 0 {
            g.chans[ch].len -= 1;
            Ok(())
        } else {
            Err(())
        }
    }
    fn chan_took(&self, ch: usize) {
        let mut g = self.inner.lock();
        if g.chans[ch].len > 0 {
            g.chans[ch].len -= 1;
        }
    }
    fn chan_drop_sender(&self, ch: usize) {
        let mut g = self.inner.lock();
        if ch < g.chans.len() {
            g.chans[ch].sender_alive = false;
        }
    }
    fn chan_drop_receiver(&self, ch: usize) {
        let mut g = self.inner.lock();
        if ch < g.chans.len() {
            g.chans[ch].receiver_alive = false;
        }
    }
    fn rng_u64(&self) -> u64 {
        self.inner.lock().rng.next_u64()
    }
    fn udp_bind(&self, addr: SocketAddrV4) -> std::io::Result<usize> {
        let mut g = self.inner.lock();
        if g.socks.iter().any(|s| s.open && s.addr == addr) {
            return Err(std::io::Error::new(std::io::ErrorKind::AddrInUse, "address in use"));
        }
        g.socks.push(Sock { addr, open: true, queue: Default::default() });
        let sock = g.socks.len() - 1;
        let t = g.clock;
        g.udp_log.push(UdpEvent::Bind { sock, addr: addr.to_string(), t });
        Ok(sock)
    }
    fn udp_send_to(&self, sock: usize, buf: &[u8], dst: SocketAddr) -> std::io::Result<usize> {
        let me = Self::me();
        {
            let g = self.inner.lock();
            self.reschedule(g, me, false);
        }
        self.check_abort(me);
        let mut g = self.inner.lock();
        g.ev(me, 12, sock);
        g.stats.udp_sent += 1;
        let from = g.socks[sock].addr;
        let SocketAddr::V4(dst4) = dst else {
            return Err(std::io::Error::new(std::io::ErrorKind::InvalidInput, "ipv6"));
        };
        let id = g.next_dgram;
        g.next_dgram += 1;
        let now = g.clock;
        let spec = g.spec.udp.clone();
        let payload = Arc::new(buf.to_vec());
        let mut outcome = "queued";
        let err = (g.rng.below(100) as u8) < spec.send_err_pct;
        let dropped = (g.rng.below(100) as u8) < spec.drop_pct;
        let dup = (g.rng.below(100) as u8) < spec.dup_pct;
        let d1 = g.rng.range(200_000, 1_200_000 + spec.max_delay_us as u64 * 1_000);
        let d2 = g.rng.range(200_000, 1_200_000 + spec.max_delay_us as u64 * 1_000);
        let target = g.socks.iter().position(|s| s.open && s.addr == dst4);
        if err {
            outcome = "error";
            g.stats.udp_send_errs += 1;
        } else if target.is_none() {
            outcome = "no-listener";
        } else if dropped {
            outcome = "dropped";
            g.stats.udp_dropped += 1;
        } else {
            let ti = target.unwrap();
            g.socks[ti].queue.push(std::cmp::Reverse(Datagram { deliver_at: now + d1, bytes: payload.clone(), from, id, copy: 0 }));
            if dup {
                outcome = "duplicated";
                g.stats.udp_duplicated += 1;
                g.socks[ti].queue.push(std::cmp::Reverse(Datagram { deliver_at: now + d1 + d2, bytes: payload.clone(), from, id, copy: 1 }));
            }
        }
        g.udp_log.push(UdpEvent::SendTo {
            sock,
            from: from.to_string(),
            to: dst4.to_string(),
            bytes: payload,
            t: now,
            id,
            outcome,
        });
        if err {
            Err(std::io::Error::new(std::io::ErrorKind::ConnectionRefused, "injected send error"))
        } else {
            Ok(buf.len())
        }
    }
    fn udp_recv_from(
        &self,
        sock: usize,
        buf: &mut [u8],
        timeout: Option<Duration>,
    ) -> std::io::Result<(usize, SocketAddr)> {
        let me = Self::me();
        {
            let mut g = self.inner.lock();
            g.ev(me, 13, sock);
            let deadline = timeout.map(|d| g.clock.saturating_add(d.as_nanos().min(u64::MAX as u128) as u64));
            g.threads[me].st = St::UdpRecv(sock, deadline);
            self.reschedule(g, me, false);
        }
        self.check_abort(me);
        let mut g = self.inner.lock();
        g.threads[me].st = St::Runnable;
        let now = g.clock;
        let spec = g.spec.udp.clone();
        // earliest deliverable datagram (ties: lowest id)
        let best = g.socks[sock].queue.peek().map(|d| d.0.deliver_at <= now).unwrap_or(false);
        match best {
            true => {
                if (g.rng.below(100) as u8) < spec.recv_err_pct {
                    g.stats.udp_recv_errs += 1;
                    g.udp_log.push(UdpEvent::RecvErr { sock, t: now });
                    return Err(std::io::Error::new(std::io::ErrorKind::Interrupted, "injected recv error"));
                }
                let d = g.socks[sock].queue.pop().unwrap().0;
                let n = d.bytes.len().min(buf.len());
                buf[..n].copy_from_slice(&d.bytes[..n]);
                let to = g.socks[sock].addr.to_string();
                g.udp_log.push(UdpEvent::Recv { sock, to, from: d.from.to_string(), bytes: d.bytes.clone(), t: now, id: d.id });
                Ok((n, SocketAddr::V4(d.from)))
            }
            false => {
                g.stats.udp_timeouts += 1;
                g.udp_log.push(UdpEvent::RecvTimeout { sock, t: now });
                Err(std::io::Error::new(std::io::ErrorKind::WouldBlock, "timed out"))
            }
        }
    }
    fn udp_close(&self, sock: usize) {
        let mut g = self.inner.lock();
        if sock < g.socks.len() {
            g.socks[sock].open = false;
        }
    }
    fn scope_wait_all(&self, tokens: &[u64]) {
        let me = Self::me();
        {
            let mut g = self.inner.lock();
            g.threads[me].st = St::ScopeWait(tokens.iter().map(|t| *t as usize).collect());
            self.reschedule(g, me, false);
        }
        // do not raise here: the real scope must join its (already finished) children
    }
}

/// A `VecDeque`-backed log shared between simulation threads. Only the baton holder runs, so the
/// real lock is never contended.
pub struct Shared<T>(pub Arc<Mutex<T>>);
impl<T> Clone for Shared<T> {
    fn clone(&self) -> Self {
        Shared(self.0.clone())
    }
}
impl<T> Shared<T> {
    pub fn new(t: T) -> Self {
        Shared(Arc::new(Mutex::new(t)))
    }
    pub fn with<R>(&self, f: impl FnOnce(&mut T) -> R) -> R {
        f(&mut self.0.lock())
    }
}

#[allow(dead_code)]
fn _unused(_: VecDeque<u8>) {}
