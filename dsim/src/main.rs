//! dsim — deterministic simulation with fault injection for getong/stateright.
//!
//! `dsim check <PROP> --tier quick|thorough`   run a property's check (driver: spawns workers)
//! `dsim worker <PROP> <base> <k> <w> <n> <out>` run indices k, k+w, … < n (one simulation at a time)
//! `dsim replay <file>`                          re-execute a replay file in this process
//! `dsim selftest-determinism [--runs N]`        every run twice, in different processes

mod cases;
mod common;
mod determinism_seam;
mod driver;
mod rng;
mod s1;
mod s2;
mod s3;
mod s4;
mod sched;

use std::process::exit;

fn main() {
    determinism_seam::install();
    let args: Vec<String> = std::env::args().collect();
    let code = match args.get(1).map(|s| s.as_str()) {
        Some("check") => driver::check(&args[2..]),
        Some("worker") => driver::worker(&args[2..]),
        Some("replay") => driver::replay(&args[2..]),
        Some("selftest-determinism") => driver::selftest_determinism(&args[2..]),
        Some("scenario") => {
            // prints the generated scenario of one run seed (debugging aid)
            let seed: u64 = args[3].parse().unwrap();
            driver::pin_to_core(0);
            determinism_seam::reset(seed);
            let (rep, sc) = cases::run_case(&args[2], seed);
            println!("{}", serde_json::to_string(&serde_json::json!({"scenario": sc, "violations": rep.violations, "counters": rep.counters})).unwrap());
            0
        }
        Some("list") => {
            for p in cases::PROPS {
                println!("{}", p.id);
            }
            0
        }
        _ => {
            eprintln!("usage: dsim check <PROP> [--tier quick|thorough] | worker … | replay <file> | selftest-determinism | list");
            2
        }
    };
    exit(code);
}
