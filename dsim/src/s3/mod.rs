//! S3 — the UDP runtime: the real `actor::spawn()` event loop on virtual UDP and a virtual clock.

use crate::common::{Counters, RunReport, Violation};
use crate::rng::Rng;
use crate::s2::script::*;
use crate::sched::{Policy, Sched, SchedSpec, Shared, UdpEvent, UdpSpec};
use serde::{Deserialize, Serialize};
use serde_json::Value;
use stateright::actor::{Actor, Id, Out};
use stateright::verif_hooks::Hooks;
use std::borrow::Cow;
use std::collections::BTreeMap;
use std::net::{Ipv4Addr, SocketAddrV4};
use std::sync::Arc;
use std::time::Duration;

#[derive(Clone, Debug, Serialize, Deserialize)]
pub struct S3Scenario {
    pub tables: Vec<Table>,
    /// (ip as u32, port) per actor
    pub addrs: Vec<(u32, u16)>,
    /// per timer id: (lower, upper) bound in ms; lower == upper allowed
    pub timer_ranges: Vec<(u32, u32)>,
    /// external datagrams: (at virtual ms, target actor, kind, tag): kind 0 = valid message,
    /// 1 = junk bytes, 2 = empty
    pub injections: Vec<(u32, u8, u8, u8)>,
    pub horizon_ms: u32,
    /// messages with this tag carry a blob of `blob_len` bytes
    #[serde(default)]
    pub big_tag: Option<u8>,
    #[serde(default)]
    pub blob_len: u32,
    /// opaque bytes appended to the payload of odd-tagged and of big messages (line terminators,
    /// NUL, 0xff, ...: the runtime must hand payload bytes through untouched)
    #[serde(default)]
    pub tail: Vec<u8>,
    /// (actor, n): that actor's n-th message / timeout / random handler call panics (fault: a
    /// handler panic ends that actor; it must not be restarted behind the scenes)
    #[serde(default)]
    pub handler_panic: Option<(u8, u32)>,
    pub sched: SchedSpec,
}

#[derive(Clone, Debug, Serialize, PartialEq)]
pub enum HKind {
    Start,
    /// `dig`: digest of the received message re-encoded by the codec
    Msg { src: u64, tag: u8, who: Option<u64>, blob_len: usize, dig: Dig },
    Timeout(u8),
    Random(u8),
}
#[derive(Clone, Debug, Serialize)]
pub struct HEvent {
    pub actor: usize,
    pub kind: HKind,
    pub before: Option<String>,
    pub after: String,
    pub t_enter: u64,
    pub t_exit: u64,
    pub cmds: Vec<String>,
    pub sends: Vec<(u64, Dig)>,
    pub timer_cmds: Vec<(bool, u8)>,
    pub unserializable: u32,
}

#[derive(Clone)]
pub struct S3Actor {
    pub idx: usize,
    pub table: Arc<Table>,
    pub ids: Arc<Vec<Id>>,
    pub ranges: Arc<Vec<(u32, u32)>>,
    pub log: Shared<Vec<HEvent>>,
    pub sched: Arc<Sched>,
    pub big_tag: Option<u8>,
    pub blob_len: u32,
    pub tail: Arc<Vec<u8>>,
    pub panic_at: Option<u32>,
    pub calls: Arc<std::sync::atomic::AtomicU32>,
}

fn id_u64(i: Id) -> u64 {
    let a: SocketAddrV4 = i.into();
    ((u32::from(*a.ip()) as u64) << 16) | a.port() as u64
}

impl S3Actor {
    fn fix(&self, d: Id) -> Id {
        let raw = id_u64(d);
        if raw < 256 {
            self.ids.get(raw as usize).cloned().unwrap_or_else(|| Id::from(SocketAddrV4::new(Ipv4Addr::new(203, 0, 113, raw as u8), 9)))
        } else {
            d
        }
    }
    fn emit(&self, cmds: Vec<RCmd>, o: &mut Out<Self>, ev: &mut HEvent) {
        for c in cmds {
            ev.cmds.push(format!("{:?}", c));
            match c {
                RCmd::Send(d, m) => {
                    let d = self.fix(d);
                    let m = M { tag: m.tag, who: m.who.map(|w| self.fix(w)) };
                    let m = Big { blob: blob_for(m.tag, self.big_tag, self.blob_len, &self.tail), m };
                    if let Ok(bytes) = ser(&m) {
                        ev.sends.push((id_u64(d), dig(&bytes)));
                    } else {
                        ev.unserializable += 1;
                    }
                    o.send(d, m);
                }
                RCmd::Bcast(ds, m) => {
                    let ds: Vec<Id> = ds.into_iter().map(|d| self.fix(d)).collect();
                    let m = M { tag: m.tag, who: m.who.map(|w| self.fix(w)) };
                    let m = Big { blob: blob_for(m.tag, self.big_tag, self.blob_len, &self.tail), m };
                    for d in &ds {
                        if let Ok(bytes) = ser(&m) {
                            ev.sends.push((id_u64(*d), dig(&bytes)));
                        } else {
                            ev.unserializable += 1;
                        }
                    }
                    o.broadcast(&ds, &m);
                }
                RCmd::SetTimer(t) => {
                    let (a, b) = self.ranges[t as usize % self.ranges.len()];
                    ev.timer_cmds.push((true, t));
                    o.set_timer(t, Duration::from_millis(a as u64)..Duration::from_millis(b as u64));
                }
                RCmd::CancelTimer(t) => {
                    ev.timer_cmds.push((false, t));
                    o.cancel_timer(t);
                }
                RCmd::Choose(k, opts) => {
                    if opts.is_empty() {
                        o.remove_random(k)
                    } else {
                        o.choose_random(k, opts)
                    }
                }
            }
        }
    }
    fn maybe_panic(&self) {
        let k = self.calls.fetch_add(1, std::sync::atomic::Ordering::SeqCst) + 1;
        if self.panic_at == Some(k) {
            panic!("injected handler panic");
        }
    }
    fn ev(&self, kind: HKind, before: Option<&S>) -> HEvent {
        HEvent { actor: self.idx, kind, before: before.map(|s| format!("{:?}", s)), after: String::new(), t_enter: self.sched.clock_ns(), t_exit: 0, cmds: vec![], sends: vec![], timer_cmds: vec![], unserializable: 0 }
    }
    fn done(&self, mut ev: HEvent, after: &S) {
        ev.after = format!("{:?}", after);
        ev.t_exit = self.sched.clock_ns();
        self.log.with(|l| l.push(ev));
    }
}

impl Actor for S3Actor {
    type Msg = Big;
    type State = S;
    type Timer = u8;
    type Random = u8;
    fn on_start(&self, id: Id, o: &mut Out<Self>) -> S {
        let mut ev = self.ev(HKind::Start, None);
        let (s, cmds) = self.table.eval_start(id);
        self.emit(cmds, o, &mut ev);
        self.done(ev, &s);
        s
    }
    fn on_msg(&self, id: Id, state: &mut Cow<S>, src: Id, msg: Big, o: &mut Out<Self>) {
        self.maybe_panic();
        let blob_len = msg.blob.len();
        let d = ser(&msg).map(|b| dig(&b)).unwrap_or((0, usize::MAX));
        let msg = msg.m;
        let mut ev = self.ev(HKind::Msg { src: id_u64(src), tag: msg.tag, who: msg.who.map(id_u64), blob_len, dig: d }, Some(state));
        let e = self.table.eval_msg(id, state, src, &msg);
        if let Some(n) = e.new_state {
            *state = Cow::Owned(n);
        }
        self.emit(e.cmds, o, &mut ev);
        self.done(ev, state);
    }
    fn on_timeout(&self, id: Id, state: &mut Cow<S>, timer: &u8, o: &mut Out<Self>) {
        self.maybe_panic();
        let mut ev = self.ev(HKind::Timeout(*timer), Some(state));
        let e = self.table.eval_timer(id, state, *timer);
        if let Some(n) = e.new_state {
            *state = Cow::Owned(n);
        }
        self.emit(e.cmds, o, &mut ev);
        self.done(ev, state);
    }
    fn on_random(&self, id: Id, state: &mut Cow<S>, random: &u8, o: &mut Out<Self>) {
        self.maybe_panic();
        let mut ev = self.ev(HKind::Random(*random), Some(state));
        let e = self.table.eval_random(id, state, *random);
        if let Some(n) = e.new_state {
            *state = Cow::Owned(n);
        }
        self.emit(e.cmds, o, &mut ev);
        self.done(ev, state);
    }
}

/// What travels between the actors: a script message plus an opaque blob (so that datagrams of
/// realistic and of large sizes occur). The codec is length-tolerant: the blob is "whatever
/// follows the first newline".
#[derive(Clone, Debug, PartialEq, Eq, Hash)]
pub struct Big {
    pub m: M,
    pub blob: Vec<u8>,
}

/// Messages with this tag cannot be serialized (the codec is allowed to fail).
pub const UNSERIALIZABLE_TAG: u8 = 3;
/// The message with this tag (and nothing else in it) is encoded as zero bytes.
pub const EMPTY_TAG: u8 = 4;
fn ser(b: &Big) -> Result<Vec<u8>, String> {
    if b.m.tag == UNSERIALIZABLE_TAG {
        return Err("this message cannot be serialized".to_string());
    }
    if b.m.tag == EMPTY_TAG && b.m.who.is_none() && b.blob.is_empty() {
        return Ok(Vec::new());
    }
    let mut v = serde_json::to_vec(&b.m).map_err(|e| e.to_string())?;
    v.push(b'\n');
    v.extend_from_slice(&b.blob);
    Ok(v)
}
fn de(b: &[u8]) -> Result<Big, String> {
    if b.is_empty() {
        return Ok(Big { m: M { tag: EMPTY_TAG, who: None }, blob: Vec::new() });
    }
    let cut = b.iter().position(|x| *x == b'\n').ok_or_else(|| "no header".to_string())?;
    let m: M = serde_json::from_slice(&b[..cut]).map_err(|e| e.to_string())?;
    Ok(Big { m, blob: b[cut + 1..].to_vec() })
}
/// (FNV-1a digest, length): datagrams are compared by digest so that large blobs are not copied around
type Dig = (u64, usize);
fn dig_more(mut h: u64, bytes: &[u8]) -> u64 {
    for b in bytes {
        h = (h ^ *b as u64).wrapping_mul(0x0000_0100_0000_01b3);
    }
    h
}
fn dig(bytes: &[u8]) -> Dig {
    (dig_more(0xcbf2_9ce4_8422_2325, bytes), bytes.len())
}
fn blob_for(tag: u8, big_tag: Option<u8>, blob_len: u32, tail: &[u8]) -> Vec<u8> {
    let mut b = if Some(tag) == big_tag { vec![b'z'; blob_len as usize] } else { Vec::new() };
    if Some(tag) == big_tag || tag % 2 == 1 {
        b.extend_from_slice(tail);
    }
    b
}

pub fn gen_s3(seed: u64) -> S3Scenario {
    let mut rng = Rng::new(seed);
    let mut g = SysGen::default();
    g.max_actors = 4;
    g.states = rng.range(1, 3) as u8;
    g.tags = rng.range(1, 5) as u8;
    g.timers = rng.range(1, 3) as u8;
    g.randoms = 2;
    g.use_timers = rng.chance(4, 5);
    g.use_random = rng.chance(1, 3);
    g.row_pct = *rng.pick(&[40u64, 70]);
    g.max_crashes = 0;
    let n = 1 + rng.usize_below(4);
    let tables: Vec<Table> = (0..n).map(|_| gen_table(&mut rng, &g, n)).collect();
    let mut addrs: Vec<(u32, u16)> = Vec::new();
    while addrs.len() < n {
        let ip = match rng.below(4) {
            0 => u32::from(Ipv4Addr::LOCALHOST),
            1 => (10u32 << 24) | rng.below(1 << 24) as u32,
            _ => rng.range(0x0100_0000, 0xdfff_ffff) as u32,
        };
        let port = rng.range(1, 65535) as u16;
        if !addrs.contains(&(ip, port)) {
            addrs.push((ip, port));
        }
    }
    let timer_ranges = (0..3)
        .map(|_| {
            let a = rng.range(1, 400) as u32;
            if rng.chance(1, 3) {
                (a, a)
            } else {
                (a, a + rng.range(1, 400) as u32)
            }
        })
        .collect();
    let horizon_ms = *rng.pick(&[100u32, 300, 800, 2500]);
    let big_tag = if rng.chance(1, 3) { Some(rng.below(g.tags as u64) as u8) } else { None };
    let blob_len = *rng.pick(&[100u32, 1_400, 8_999, 9_001, 12_000]);
    let injections = (0..rng.below(8)).map(|_| (rng.below(horizon_ms as u64) as u32, rng.below(n as u64) as u8, rng.below(3) as u8, rng.below(g.tags as u64) as u8)).collect();
    let mut sched = crate::s1::gen::gen_sched(&mut rng, 40_000);
    sched.block_size = 0;
    sched.stall_ppm = *rng.pick(&[0u32, 200, 2000]);
    sched.policy = match rng.below(3) {
        0 => Policy::Random { stick_pct: 50 },
        1 => Policy::Pct { depth: 2, horizon: 500 },
        _ => Policy::RoundRobin { quantum: 3 },
    };
    sched.udp = UdpSpec {
        drop_pct: *rng.pick(&[0u8, 10, 30]),
        dup_pct: *rng.pick(&[0u8, 10, 30]),
        max_delay_us: *rng.pick(&[0u32, 2_000, 50_000]),
        send_err_pct: *rng.pick(&[0u8, 0, 10]),
        recv_err_pct: *rng.pick(&[0u8, 0, 10]),
    };
    // a long handler output around a set-then-cancel of one timer (sends go to an outside address)
    let mut tables = tables;
    if g.use_timers && rng.chance(1, 3) {
        let t = rng.below(g.timers as u64) as u8;
        let outside = |rng: &mut Rng, k: u64| -> Vec<Cmd> { (0..k).map(|_| Cmd::Send { dst: Dst::Abs(n as u8 + 1), tag: rng.below(g.tags as u64) as u8, who: Who::Nobody }).collect() };
        let ks = [0u64, 1, 8, 25, 31, 45];
        let k1 = ks[rng.usize_below(ks.len())];
        let mut cmds = outside(&mut rng, k1);
        cmds.push(Cmd::SetTimer(t));
        let k2 = ks[rng.usize_below(ks.len())];
        cmds.extend(outside(&mut rng, k2));
        cmds.push(Cmd::CancelTimer(t));
        let k3 = ks[rng.usize_below(ks.len())];
        cmds.extend(outside(&mut rng, k3));
        let ti = rng.usize_below(tables.len());
        let tb = &mut tables[ti];
        match rng.below(3) {
            0 => tb.start = cmds,
            1 if !tb.msg.is_empty() => {
                let i = rng.usize_below(tb.msg.len());
                tb.msg[i].1.cmds = cmds;
            }
            _ if !tb.timer.is_empty() => {
                let i = rng.usize_below(tb.timer.len());
                tb.timer[i].1.cmds = cmds;
            }
            _ => tb.start = cmds,
        }
    }
    let tail: Vec<u8> = match rng.below(6) {
        0 => vec![b'\n'],
        1 => vec![b'\r', b'\n'],
        2 => (0..rng.range(1, 3)).map(|_| *rng.pick(&[b'\n', b'\r', 0u8, b' ', 0xff, b'}', b'a', b'\t'])).collect(),
        _ => vec![],
    };
    let handler_panic = if rng.chance(1, 8) { Some((rng.below(n as u64) as u8, rng.range(1, 4) as u32)) } else { None };
    S3Scenario { tables, addrs, timer_ranges, injections, horizon_ms, big_tag, blob_len, tail, handler_panic, sched }
}

pub struct S3Obs {
    pub log: Vec<HEvent>,
    pub udp: Vec<UdpEvent>,
    pub stats: crate::sched::Stats,
    pub trace_hash: u64,
    pub aborted_by_budget: bool,
}

pub fn run_s3(sc: &S3Scenario) -> S3Obs {
    let sched = Sched::new(sc.sched.clone());
    let log: Shared<Vec<HEvent>> = Shared::new(Vec::new());
    let ids: Arc<Vec<Id>> = Arc::new(sc.addrs.iter().map(|(ip, port)| Id::from(SocketAddrV4::new(Ipv4Addr::from(*ip), *port))).collect());
    let ranges = Arc::new(sc.timer_ranges.clone());
    sched.enter();
    let actors: Vec<(Id, S3Actor)> = sc
        .tables
        .iter()
        .enumerate()
        .map(|(i, t)| (ids[i], S3Actor { idx: i, table: Arc::new(t.clone()), ids: ids.clone(), ranges: ranges.clone(), log: log.clone(), sched: sched.clone(), big_tag: sc.big_tag, blob_len: sc.blob_len, tail: Arc::new(sc.tail.clone()), panic_at: sc.handler_panic.filter(|(a, _)| *a as usize == i).map(|(_, k)| k), calls: Arc::new(std::sync::atomic::AtomicU32::new(0)) }))
        .collect();
    let res = std::panic::catch_unwind(std::panic::AssertUnwindSafe(|| {
        // the runtime blocks forever: run it on its own simulation thread
        let _runner = stateright::verif_hooks::std_shim::thread::Builder::new().name("runtime".to_string()).spawn(move || {
            let _ = stateright::actor::spawn(ser, de, actors);
        });
        let mut inj = sc.injections.clone();
        inj.sort();
        let outsider = SocketAddrV4::new(Ipv4Addr::new(198, 51, 100, 7), 4242);
        let mut now_ms = 0u32;
        for (at, target, kind, tag) in inj {
            if at > now_ms {
                sched.sleep(Duration::from_millis((at - now_ms) as u64));
                now_ms = at;
            }
            let to: SocketAddrV4 = ids[target as usize % ids.len()].into();
            let bytes = match kind {
                0 => ser(&Big { m: M { tag, who: None }, blob: blob_for(tag, sc.big_tag, sc.blob_len, &sc.tail) }).unwrap_or_default(),
                1 => vec![0xff, b'{', tag, 0x00, b'x'],
                _ => vec![],
            };
            sched.inject_datagram(to, outsider, bytes, 1000);
        }
        if sc.horizon_ms > now_ms {
            sched.sleep(Duration::from_millis((sc.horizon_ms - now_ms) as u64));
        }
    }));
    let budget = sched.aborted() == Some(crate::sched::AbortReason::Budget);
    let _ = res;
    let _ = sched.leave(true);
    S3Obs { log: log.with(|l| std::mem::take(l)), udp: sched.udp_log(), stats: sched.stats(), trace_hash: sched.trace_hash(), aborted_by_budget: budget }
}

fn addr_u64(s: &str) -> u64 {
    let a: SocketAddrV4 = s.parse().unwrap();
    ((u32::from(*a.ip()) as u64) << 16) | a.port() as u64
}

pub fn judge(sc: &S3Scenario, obs: &S3Obs) -> (Vec<Violation>, Counters) {
    let mut v: Vec<Violation> = Vec::new();
    let mut c = Counters::default();
    let n = sc.tables.len();
    let my_addr: Vec<u64> = sc.addrs.iter().map(|(ip, p)| ((*ip as u64) << 16) | *p as u64).collect();
    // socket index per actor
    let mut sock_of: BTreeMap<u64, usize> = BTreeMap::new();
    for e in &obs.udp {
        if let UdpEvent::Bind { sock, addr, .. } = e {
            sock_of.insert(addr_u64(addr), *sock);
        }
    }
    for a in 0..n {
        let evs: Vec<&HEvent> = obs.log.iter().filter(|e| e.actor == a).collect();
        // start once, first
        let starts = evs.iter().filter(|e| e.kind == HKind::Start).count();
        if !evs.is_empty() && (evs[0].kind != HKind::Start || starts != 1) {
            v.push(Violation::new("C17", "start", format!("actor {}: on_start ran {} times; first event is {:?}", a, starts, evs[0].kind)));
        }
        // the actor listens on exactly the address its id encodes (a wildcard or otherwise different
        // bind would hand it datagrams that were sent to somebody else's address)
        let sock = match sock_of.get(&my_addr[a]) {
            Some(s) => *s,
            None => {
                let bound: Vec<String> = obs.udp.iter().filter_map(|e| if let UdpEvent::Bind { addr, .. } = e { Some(addr.clone()) } else { None }).collect();
                if !evs.is_empty() {
                    v.push(Violation::new("C17", "bind-address", format!("actor {} (id address {:x}) runs handlers but no socket is bound to its address; bound: {:?}", a, my_addr[a], bound)));
                }
                continue;
            }
        };
        // datagrams handed to recv_from on this socket: (from, digest, t, matched, decodable)
        let mut recvd: Vec<(u64, Dig, u64, bool, bool)> = obs
            .udp
            .iter()
            .filter_map(|e| match e {
                UdpEvent::Recv { sock: s, from, bytes, t, .. } if *s == sock => Some((addr_u64(from), dig(bytes), *t, false, de(bytes).is_ok())),
                _ => None,
            })
            .collect();
        // index of unmatched decodable datagrams by (source, content)
        let mut by_key: BTreeMap<(u64, Dig), std::collections::VecDeque<usize>> = BTreeMap::new();
        for (i, r) in recvd.iter().enumerate() {
            if r.4 {
                by_key.entry((r.0, r.1)).or_default().push_back(i);
            }
        }
        // everything this socket sent, in order
        let sent_log: Vec<(u64, u64, Dig)> = obs
            .udp
            .iter()
            .filter_map(|u| match u {
                UdpEvent::SendTo { sock: s, to, bytes, t, .. } if *s == sock => Some((*t, addr_u64(to), dig(bytes))),
                _ => None,
            })
            .collect();
        let mut sent_pos = 0usize;
        // state threading, message matching, timers
        let mut prev_after: Option<String> = None;
        let mut armed: BTreeMap<u8, u64> = BTreeMap::new(); // timer -> t_exit of the arming handler
        for (k, e) in evs.iter().enumerate() {
            if let (Some(b), Some(p)) = (&e.before, &prev_after) {
                if b != p {
                    v.push(Violation::new("C17", "state-thread", format!("actor {}: handler {:?} received state {} but the previous handler left {}", a, e.kind, b, p)));
                }
            }
            prev_after = Some(e.after.clone());
            match &e.kind {
                HKind::Msg { src, tag, who, blob_len: _, dig: want } => {
                    c.inc("handler_on_msg");
                    // what was handed over, re-encoded by the handler itself: it must be byte for byte a
                    // datagram that was delivered to this socket before the handler ran (the codec is
                    // the identity on well-formed datagrams)
                    let want: Dig = *want;
                    let key = (*src, want);
                    let hit = match by_key.get_mut(&key) {
                        Some(q) if q.front().map(|i| recvd[*i].2 <= e.t_enter).unwrap_or(false) => q.pop_front(),
                        _ => None,
                    };
                    match hit {
                        Some(i) => recvd[i].3 = true,
                        None => {
                            let same_payload = by_key.iter().any(|((_, p), q)| *p == want && q.front().map(|i| recvd[*i].2 <= e.t_enter).unwrap_or(false));
                            let same_src = by_key.iter().any(|((sr, _), q)| *sr == *src && q.front().map(|i| recvd[*i].2 <= e.t_enter).unwrap_or(false));
                            let class = if same_payload { "wrong-src" } else if same_src { "wrong-payload" } else { "phantom-msg" };
                            v.push(Violation::new("C17", class, format!("actor {}: on_msg(src={:x}, tag={}, who={:?}) at {} ns matches no unconsumed datagram delivered to its socket ({} delivered so far)", a, src, tag, who, e.t_enter, recvd.iter().filter(|r| r.2 <= e.t_enter).count())));
                        }
                    }
                }
                HKind::Timeout(t) => {
                    c.inc("handler_on_timeout");
                    match armed.get(t) {
                        None => v.push(Violation::new("C17", "timer-unarmed", format!("actor {}: timer {} fired at {} ns but it is not armed (never set, cancelled, or already fired)", a, t, e.t_enter))),
                        Some(armed_at) => {
                            let lower = sc.timer_ranges[*t as usize % sc.timer_ranges.len()].0 as u64 * 1_000_000;
                            if e.t_enter < armed_at + lower {
                                v.push(Violation::new("C17", "timer-early", format!("actor {}: timer {} fired at {} ns, armed at >= {} ns with lower bound {} ns", a, t, e.t_enter, armed_at, lower)));
                            }
                        }
                    }
                    armed.remove(t); // a fired timer is no longer armed
                }
                HKind::Random(_) => c.inc("handler_on_random"),
                HKind::Start => {}
            }
            for (set, t) in &e.timer_cmds {
                if *set {
                    armed.insert(*t, e.t_exit);
                } else {
                    armed.remove(t);
                    c.inc("probe_timer_cancelled");
                }
            }
            // sends: between this handler and the actor's next one, the socket sees exactly these
            let t_hi = evs.get(k + 1).map(|n| n.t_enter).unwrap_or(u64::MAX);
            let from = sent_pos;
            while sent_pos < sent_log.len() && sent_log[sent_pos].0 < t_hi {
                sent_pos += 1;
            }
            let seen: Vec<(u64, Dig)> = sent_log[from..sent_pos].iter().map(|x| (x.1, x.2)).collect();
            let is_last = k + 1 == evs.len();
            let ok = if is_last { e.sends.len() >= seen.len() && e.sends[..seen.len()] == seen[..] } else { e.sends == seen };
            if !ok && v.len() < 4 {
                v.push(Violation::new("C17", "send-mismatch", format!("actor {}: handler {:?} emitted sends (destination, digest, length) {:x?} but its socket sent {:x?} (commands: {:?})", a, e.kind, e.sends, seen, e.cmds)));
            }
            c.add("sends_checked", e.sends.len() as u64);
            c.add("fault_unserializable_message_sent", e.unserializable as u64);
        }
        c.add("probe_datagrams_delivered_not_handed", recvd.iter().filter(|r| !r.3 && r.4).count() as u64);
        c.add("fault_undecodable_datagram_delivered", recvd.iter().filter(|r| !r.4).count() as u64);
    }
    // id <-> address round trips on every address used and on seeded ones
    let mut rng = Rng::new(sc.sched.seed ^ 0x1d);
    let mut addrs: Vec<SocketAddrV4> = sc.addrs.iter().map(|(ip, p)| SocketAddrV4::new(Ipv4Addr::from(*ip), *p)).collect();
    for _ in 0..16 {
        addrs.push(SocketAddrV4::new(Ipv4Addr::from(rng.next_u64() as u32), rng.next_u64() as u16));
    }
    addrs.push(SocketAddrV4::new(Ipv4Addr::new(255, 255, 255, 255), 65535));
    addrs.push(SocketAddrV4::new(Ipv4Addr::new(0, 0, 0, 0), 0));
    for a in addrs {
        let back: SocketAddrV4 = Id::from(a).into();
        if back != a {
            v.push(Violation::new("C17", "id-roundtrip", format!("address {} -> Id -> address gives {}", a, back)));
        }
    }
    for _ in 0..16 {
        let raw = rng.next_u64() & 0xffff_ffff_ffff;
        let id = Id::from(raw as usize);
        let a: SocketAddrV4 = id.into();
        if Id::from(a) != id {
            v.push(Violation::new("C17", "id-roundtrip", format!("id {:x} -> address {} -> id differs", raw, a)));
        }
        let expect = SocketAddrV4::new(Ipv4Addr::from((raw >> 16) as u32), (raw & 0xffff) as u16);
        if a != expect {
            v.push(Violation::new("C17", "id-roundtrip", format!("id {:x} encodes {} but converts to {}", raw, expect, a)));
        }
    }
    c.add("fault_udp_dropped", obs.stats.udp_dropped);
    c.add("fault_udp_duplicated", obs.stats.udp_duplicated);
    c.add("fault_udp_send_error", obs.stats.udp_send_errs);
    c.add("fault_udp_recv_error", obs.stats.udp_recv_errs);
    c.add("fault_stalls", obs.stats.stalls);
    c.add("udp_datagrams_sent", obs.stats.udp_sent);
    c.add("probe_recv_timeouts", obs.stats.udp_timeouts);
    c.add("fault_external_datagrams_injected", sc.injections.len() as u64);
    if obs.aborted_by_budget {
        c.inc("runs_ended_by_step_budget");
    }
    let mut seen = std::collections::BTreeSet::new();
    v.retain(|x| seen.insert(x.class.clone()));
    (v, c)
}

fn report(obs: &S3Obs, v: Vec<Violation>, c: Counters) -> RunReport {
    RunReport { violations: v, counters: c, signature: obs.trace_hash, nontrivial: obs.log.len() >= 2, sim_time_ns: obs.stats.final_clock_ns, steps: obs.stats.steps, case_hashes: vec![] }
}

pub fn run_case(_focus: &str, seed: u64) -> (RunReport, Value) {
    let sc = gen_s3(seed);
    let obs = run_s3(&sc);
    let (v, c) = judge(&sc, &obs);
    (report(&obs, v, c), serde_json::to_value(&sc).unwrap())
}

pub fn replay(_focus: &str, scenario: &Value) -> Result<RunReport, String> {
    let sc: S3Scenario = serde_json::from_value(scenario.clone()).map_err(|e| e.to_string())?;
    let obs = run_s3(&sc);
    let (v, c) = judge(&sc, &obs);
    Ok(report(&obs, v, c))
}

pub fn summary(scenario: &Value) -> Value {
    serde_json::json!({"actors": scenario["tables"].as_array().map(|a| a.len()), "addrs": scenario["addrs"], "timer_ranges_ms": scenario["timer_ranges"],
        "injections": scenario["injections"], "horizon_ms": scenario["horizon_ms"], "udp_faults": scenario["sched"]["udp"], "policy": scenario["sched"]["policy"], "stall_ppm": scenario["sched"]["stall_ppm"]})
}

pub fn shrink_candidates(scenario: &Value) -> Vec<Value> {
    let Ok(sc) = serde_json::from_value::<S3Scenario>(scenario.clone()) else { return vec![] };
    let mut out = Vec::new();
    for i in 0..sc.injections.len() {
        let mut s = sc.clone();
        s.injections.remove(i);
        out.push(s);
    }
    let mut s = sc.clone();
    s.sched.udp = UdpSpec::default();
    out.push(s);
    let mut s = sc.clone();
    s.sched.stall_ppm = 0;
    out.push(s);
    if sc.horizon_ms > 100 {
        let mut s = sc.clone();
        s.horizon_ms /= 2;
        out.push(s);
    }
    for a in 0..sc.tables.len() {
        for r in 0..sc.tables[a].msg.len() {
            let mut s = sc.clone();
            s.tables[a].msg.remove(r);
            out.push(s);
        }
        for r in 0..sc.tables[a].timer.len() {
            let mut s = sc.clone();
            s.tables[a].timer.remove(r);
            out.push(s);
        }
        for r in 0..sc.tables[a].start.len() {
            let mut s = sc.clone();
            s.tables[a].start.remove(r);
            out.push(s);
        }
    }
    if sc.tables.len() > 1 {
        let mut s = sc.clone();
        s.tables.pop();
        s.addrs.pop();
        for i in s.injections.iter_mut() {
            i.1 %= s.tables.len() as u8;
        }
        out.push(s);
    }
    out.into_iter().map(|s| serde_json::to_value(&s).unwrap()).collect()
}
