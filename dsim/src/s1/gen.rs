//! Swarm-style scenario generation for S1: everything about a run is drawn from its run seed.

use super::graph::*;
use super::run::*;
use crate::rng::Rng;
use crate::sched::{Policy, SchedSpec, UdpSpec};

pub fn gen_policy(rng: &mut Rng) -> Policy {
    match rng.below(10) {
        0..=4 => Policy::Random { stick_pct: *rng.pick(&[0u8, 50, 90]) },
        5..=7 => Policy::Pct { depth: rng.range(1, 3) as u8, horizon: *rng.pick(&[100u32, 400, 2000]) },
        _ => Policy::RoundRobin { quantum: rng.range(1, 20) as u16 },
    }
}

pub fn gen_sched(rng: &mut Rng, budget: u64) -> SchedSpec {
    SchedSpec {
        seed: rng.next_u64(),
        policy: gen_policy(rng),
        stall_ppm: *rng.pick(&[0u32, 0, 1000, 10_000]),
        budget,
        block_size: *rng.pick(&[1usize, 1, 2, 3, 5, 8, 64, 0]),
        wall_jumps: vec![],
        calm_after_wall_ns: None,
        udp: UdpSpec::default(),
    }
}

fn gen_finish(rng: &mut Rng, g: &Graph) -> Finish {
    let names: Vec<String> = (0..g.props.len()).map(|i| NAMES[i].to_string()).collect();
    let subset = |rng: &mut Rng| -> Vec<String> {
        let mut v: Vec<String> = names.iter().filter(|_| rng.chance(1, 2)).cloned().collect();
        if rng.chance(1, 5) {
            v.push("nosuch".to_string());
        }
        v
    };
    match rng.below(8) {
        0 | 1 => Finish::All,
        2 => Finish::Any,
        3 => Finish::AnyFailures,
        4 => Finish::AllFailures,
        5 => Finish::AllOf(subset(rng)),
        _ => Finish::AnyOf(subset(rng)),
    }
}

/// A finish condition that cannot match as long as the undiscoverable property stays undiscovered.
fn gen_finish_never(rng: &mut Rng, g: &Graph) -> Finish {
    let names: Vec<String> = (0..g.props.len()).map(|i| NAMES[i].to_string()).collect();
    match rng.below(4) {
        0 | 1 => Finish::All,
        2 => Finish::AllOf(names),
        _ => Finish::AnyOf(vec!["nosuch".to_string()]),
    }
}

fn gen_panic(rng: &mut Rng, g: &Graph) -> PanicSite {
    let rf = Reference::new(g);
    let reach: Vec<u16> = rf.reachable().into_iter().collect();
    let s = if reach.is_empty() { 0 } else { *rng.pick(&reach) };
    match rng.below(5) {
        0 => PanicSite::Actions(s),
        1 => PanicSite::NextState(s),
        2 if !g.props.is_empty() => PanicSite::Cond(rng.usize_below(g.props.len()), s),
        3 => PanicSite::Boundary(s),
        _ => PanicSite::Visitor(s),
    }
}

pub fn gen_s1(focus: &str, seed: u64) -> S1Scenario {
    let mut rng = Rng::new(seed);
    let all_kinds = vec![Kind::Always, Kind::Sometimes, Kind::Eventually];
    let mut o = GenOpts {
        max_states: 60,
        shapes: vec!["general", "general", "dag", "forest", "chain", "fan"],
        min_props: 0,
        max_props: 5,
        kinds: all_kinds.clone(),
        undiscoverable: false,
        boundary: true,
        ignored: true,
        many_props: matches!(focus, "C02" | "C03" | "C11" | "C12"),
    };
    // which kind of run is this?
    let mode = match focus {
        "C01" => *rng.pick(&["exhaustive", "exhaustive", "exhaustive", "mixed"]),
        "C02" => *rng.pick(&["exhaustive", "exhaustive", "exhaustive", "mixed"]),
        "C03" => *rng.pick(&["mixed", "mixed", "exhaustive", "timeout", "diamond"]),
        "C05" => *rng.pick(&["exhaustive", "exhaustive", "mixed", "panic", "timeout", "tail-timeout", "tail-panic"]),
        "C11" => *rng.pick(&["exhaustive", "exhaustive", "mixed", "timeout"]),
        "C12" => *rng.pick(&["mixed", "mixed", "timeout", "timeout", "tail-timeout", "depth", "target"]),
        "C13" => *rng.pick(&["bfs1", "bfs1", "bfs1-mixed"]),
        _ => "mixed",
    };
    match focus {
        "C02" => {
            o.min_props = 1;
            o.kinds = vec![Kind::Always, Kind::Sometimes, Kind::Always, Kind::Sometimes, Kind::Eventually];
        }
        "C11" => {
            o.min_props = 1;
            o.kinds = vec![Kind::Eventually, Kind::Eventually, Kind::Always, Kind::Sometimes];
            o.shapes = vec!["forest", "forest", "forest", "general", "dag", "chain", "fan"];
        }
        "C13" => {
            o.min_props = 1;
            o.kinds = vec![Kind::Always, Kind::Sometimes, Kind::Always, Kind::Sometimes, Kind::Eventually];
        }
        "C03" => {
            o.min_props = 1;
        }
        _ => {}
    }
    if matches!(mode, "exhaustive" | "bfs1" | "target") {
        o.undiscoverable = true;
        o.min_props = o.min_props.max(0);
    }
    let widefan = matches!(focus, "C13" | "C01") && matches!(mode, "bfs1" | "exhaustive") && rng.chance(1, 2000);
    if widefan {
        o.shapes = vec!["widefan"];
    }
    let mut graph = gen_graph(&mut rng, &o);
    if focus == "C12" && ((matches!(mode, "mixed" | "depth") && rng.chance(1, 3)) || (mode == "target" && rng.chance(1, 2))) {
        // several initial states outside the boundary (they must not count as generated states)
        for _ in 0..rng.range(1, 6) {
            let s = rng.below(graph.n as u64) as u16;
            if !graph.inits.contains(&s) && graph.inits.len() < graph.n {
                graph.boundary[s as usize] = false;
                graph.inits.push(s);
            }
        }
    }
    let mut strategy = *rng.pick(&[Strategy::Bfs, Strategy::Dfs, Strategy::OnDemand, Strategy::Simulation]);
    let mut threads = 1 + rng.usize_below(4);
    if focus == "C05" && rng.chance(4, 5) {
        threads = 2 + rng.usize_below(3);
    }
    let mut sched = gen_sched(&mut rng, 400_000);
    if widefan {
        sched.budget = 20_000_000;
        sched.block_size = *rng.pick(&[0usize, 0, 64, 1500]);
    }
    if focus == "C05" {
        sched.block_size = *rng.pick(&[1usize, 1, 2, 3, 5, 8]);
    }
    let mut finish = gen_finish(&mut rng, &graph);
    let mut target_states = None;
    let mut target_depth = None;
    let mut timeout_ns = None;
    let mut visitor = !rng.chance(1, 12);
    let mut polls = if rng.chance(1, 3) { rng.range(1, 3) as u8 } else { 0 };
    match mode {
        "exhaustive" => {
            strategy = *rng.pick(&[Strategy::Bfs, Strategy::Dfs, Strategy::OnDemand]);
            finish = gen_finish_never(&mut rng, &graph);
            visitor = true;
        }
        "bfs1" | "bfs1-mixed" => {
            strategy = Strategy::Bfs;
            threads = 1;
            visitor = true;
            if mode == "bfs1" {
                finish = gen_finish_never(&mut rng, &graph);
            } else {
                if rng.chance(1, 3) {
                    target_depth = Some(rng.range(1, 8) as usize);
                }
                if rng.chance(1, 4) {
                    target_states = Some(rng.range(1, 80) as usize);
                }
                if rng.chance(1, 4) {
                    timeout_ns = Some(3_600_000_000_000);
                }
            }
        }
        "panic" => {
            graph.panic = Some(gen_panic(&mut rng, &graph));
            visitor = true;
            if strategy == Strategy::Simulation {
                strategy = Strategy::Bfs;
            }
            if rng.chance(1, 2) {
                finish = gen_finish_never(&mut rng, &graph);
            }
        }
        "target" => {
            // nothing but the target can stop the run early
            strategy = *rng.pick(&[Strategy::Bfs, Strategy::Bfs, Strategy::Dfs, Strategy::OnDemand]);
            finish = gen_finish_never(&mut rng, &graph);
            graph.props.retain(|p| p.bits.iter().all(|b| *b) && p.kind == Kind::Always || p.bits.iter().all(|b| !*b) && p.kind == Kind::Sometimes);
            if graph.props.is_empty() {
                graph.props.push(PropSpec { kind: Kind::Always, bits: vec![true; graph.n] });
            }
            finish = match finish {
                Finish::AllOf(_) => Finish::All,
                f => f,
            };
            visitor = true;
            target_states = Some(rng.range(1, 40) as usize);
            sched.block_size = *rng.pick(&[1usize, 1, 2, 3]);
        }
        "depth" => {
            target_depth = Some(rng.range(1, 8) as usize);
            visitor = true;
            if rng.chance(1, 2) {
                strategy = Strategy::Bfs;
                threads = 1;
                finish = Finish::AnyOf(vec!["nosuch".into()]);
            }
        }
        "diamond" => {
            // joins whose two parents disagree on an eventually-property, explored by racing workers:
            // 0 -> {1, 2} -> 3 -> {4, 5} -> 6 ...; the property holds on the odd "left" states only
            let k = rng.range(1, 3) as usize;
            let n = 3 * k + 1;
            graph.n = n;
            graph.shape = "diamond".to_string();
            graph.inits = vec![0];
            graph.boundary = vec![true; n];
            graph.edges = vec![Vec::new(); n];
            let mut bits = vec![false; n];
            for d in 0..k {
                let b = 3 * d;
                graph.edges[b] = if rng.chance(1, 2) { vec![Some(b as u16 + 1), Some(b as u16 + 2)] } else { vec![Some(b as u16 + 2), Some(b as u16 + 1)] };
                graph.edges[b + 1] = vec![Some(b as u16 + 3)];
                graph.edges[b + 2] = vec![Some(b as u16 + 3)];
                bits[b + 1] = true;
            }
            graph.props = vec![PropSpec { kind: Kind::Eventually, bits }, PropSpec { kind: Kind::Always, bits: vec![true; n] }];
            graph.panic = None;
            graph.tail = false;
            strategy = *rng.pick(&[Strategy::Bfs, Strategy::Bfs, Strategy::Dfs, Strategy::OnDemand]);
            threads = 2 + rng.usize_below(2);
            finish = Finish::All;
            visitor = rng.chance(1, 2);
            polls = 0;
            sched.block_size = 1;
            sched.stall_ppm = 0;
            sched.policy = crate::sched::Policy::Random { stick_pct: *rng.pick(&[0u8, 50]) };
        }
        "tail-panic" => {
            // an effectively unbounded chain plus a side branch on which a worker panics: the
            // worker on the chain must stop although nothing but the market tells it to
            graph.tail = true;
            graph.n = graph.n.max(3);
            let n = graph.n;
            graph.props = vec![PropSpec { kind: Kind::Always, bits: vec![true; n] }];
            graph.boundary = vec![true; n];
            graph.inits = vec![0];
            // 0 -> 1 (side branch, where the panic fires) and 0 -> 2 -> 3 -> ... -> tail
            graph.edges = vec![Vec::new(); n];
            graph.edges[0] = if rng.chance(1, 2) { vec![Some(1), Some(2)] } else { vec![Some(2), Some(1)] };
            for s in 2..n - 1 {
                graph.edges[s].push(Some(s as u16 + 1));
            }
            graph.edges[1] = vec![Some(1)]; // so that next_state is called at the side state too
            graph.panic = Some(match rng.below(3) {
                0 => PanicSite::Actions(1),
                1 => PanicSite::NextState(1),
                _ => PanicSite::Cond(0, 1),
            });
            finish = Finish::All;
            visitor = false;
            polls = 0;
            if strategy == Strategy::Simulation || strategy == Strategy::OnDemand {
                strategy = if rng.chance(1, 2) { Strategy::Bfs } else { Strategy::Dfs };
            }
            // with 3+ workers a two-element frontier is never split (len / pieces == 0), and DFS then
            // never leaves the chain: the side state would starve
            threads = if strategy == Strategy::Dfs { 2 } else { 2 + rng.usize_below(2) };
            sched.block_size = *rng.pick(&[1usize, 2, 5, 8]);
            // a starved victim never panics and the chain then runs into the budget for nothing:
            // use schedules under which every worker makes progress
            sched.policy = match rng.below(3) {
                0 => crate::sched::Policy::Random { stick_pct: 0 },
                1 => crate::sched::Policy::Random { stick_pct: 50 },
                _ => crate::sched::Policy::RoundRobin { quantum: rng.range(1, 6) as u16 },
            };
            sched.stall_ppm = 0;
            sched.budget = 60_000;
        }
        "timeout" | "tail-timeout" => {
            let tail = mode == "tail-timeout";
            if tail {
                graph.tail = true;
                // keep the search going: one undiscoverable property, nothing else stops it
                graph.props = vec![PropSpec { kind: Kind::Always, bits: vec![true; graph.n] }];
                graph.boundary = vec![true; graph.n];
                if graph.inits.is_empty() {
                    graph.inits.push(0);
                }
                // make sure the tail is reachable: chain every state to the next
                for s in 0..graph.n - 1 {
                    graph.edges[s].push(Some(s as u16 + 1));
                }
                if !graph.inits.contains(&0) {
                    graph.inits[0] = 0;
                }
                finish = Finish::All;
                visitor = false;
                polls = 0;
                sched.block_size = *rng.pick(&[1usize, 2, 5, 8, 64]);
                sched.budget = if focus == "C05" { 150_000 } else { 600_000 };
                sched.stall_ppm = *rng.pick(&[0u32, 1000]);
                let t = if focus == "C05" { rng.range(1_000_000, 50_000_000) } else { rng.range(1_000_000, 3_000_000_000) };
                timeout_ns = Some(t);
                sched.calm_after_wall_ns = Some(t + 100_000);
            } else {
                let t = match rng.below(4) {
                    0 => 0,
                    1 => rng.range(1_000, 50_000_000),
                    2 => rng.range(50_000_000, 3_000_000_000),
                    _ => 3_600_000_000_000,
                };
                timeout_ns = Some(t);
                if t < 3_000_000_000_000 {
                    sched.calm_after_wall_ns = Some(t + 100_000);
                }
                if rng.chance(1, 3) {
                    let n = rng.range(1, 2);
                    for _ in 0..n {
                        let mag = rng.range(1_000_000, 100_000_000_000) as i64;
                        let sign = if rng.chance(1, 2) { 1 } else { -1 };
                        sched.wall_jumps.push((rng.range(1, 3000), sign * mag));
                    }
                }
            }
        }
        _ => {
            // mixed
            if rng.chance(1, 3) {
                target_states = Some(rng.range(1, 80) as usize);
            }
            if rng.chance(1, 4) {
                target_depth = Some(rng.range(1, 8) as usize);
            }
            if rng.chance(1, 6) {
                timeout_ns = Some(3_600_000_000_000);
            }
        }
    }
    // several simulation workers that can only be stopped by the finish condition: a property that
    // is witnessed by every in-boundary initial state, so that whichever worker runs first completes
    // the condition and the others find nothing left to record
    let sim_finish_only = strategy == Strategy::Simulation && matches!(focus, "C05" | "C12") && target_states.is_none() && timeout_ns.is_none() && graph.panic.is_none() && !graph.props.is_empty() && graph.props.len() < 60 && rng.chance(1, 2);
    if sim_finish_only {
        let n = graph.n;
        graph.props[0] = PropSpec { kind: Kind::Sometimes, bits: vec![true; n] };
        finish = if rng.chance(1, 2) { Finish::Any } else { Finish::AnyOf(vec![NAMES[0].to_string()]) };
        threads = threads.max(2);
        if let Some(first) = graph.inits.first().cloned() {
            if !graph.inits.iter().any(|i| graph.in_boundary(*i)) {
                graph.boundary[first as usize] = true;
            }
        }
    }
    if strategy == Strategy::Simulation && !sim_finish_only {
        // the simulation strategy never stops by itself: always give it a reachable target, and
        // at least one in-boundary initial state
        if target_states.is_none() {
            target_states = Some(rng.range(1, 120) as usize);
        }
        if let Some(first) = graph.inits.first().cloned() {
            if !graph.inits.iter().any(|i| graph.in_boundary(*i)) {
                graph.boundary[first as usize] = true;
            }
        }
        if let Some(t) = timeout_ns {
            // its timeout thread lives until expiry; keep the drain short
            if t > 600_000_000_000 {
                timeout_ns = Some(rng.range(100_000_000_000, 600_000_000_000));
            }
        }
    }
    let drop_without_join = focus == "C05" && mode == "mixed" && strategy != Strategy::Simulation && rng.chance(1, 3);
    if focus == "C05" && threads >= 3 && rng.chance(1, 3) {
        threads += rng.usize_below(3); // up to 6 workers
    }
    let pre_requests: Vec<u16> = if strategy == Strategy::OnDemand && focus == "C05" && rng.chance(1, 4) {
        // a long burst of requests before run-to-completion (queues must not fill up)
        (0..rng.range(70, 200)).map(|_| rng.below(graph.n as u64) as u16).collect()
    } else if strategy == Strategy::OnDemand && rng.chance(1, 2) {
        (0..rng.range(1, 4)).map(|_| rng.below(graph.n as u64) as u16).chain(graph.inits.iter().cloned().take(1)).collect()
    } else {
        vec![]
    };
    if widefan {
        // rebuilding the path shown to the visitor is linear in the fan-out (library code), so the
        // visitor makes a wide-fan run quadratic: keep it for the narrower fans only, sometimes
        visitor = graph.n <= 4_300 && rng.chance(1, 2);
    }
    let chooser = if rng.chance(1, 2) { ChooserKind::Uniform } else { ChooserKind::Adversarial };
    // time passes between `.timeout(d)` on the builder and the spawn (the budget starts at the spawn)
    let mut pre_spawn_delay_ns = 0;
    if let Some(t) = timeout_ns {
        if matches!(focus, "C12" | "C05") && rng.chance(1, 3) {
            pre_spawn_delay_ns = rng.range(t / 4 + 1, (2 * t).clamp(2, 5_000_000_000)).min(5_000_000_000);
            if let Some(c) = sched.calm_after_wall_ns.as_mut() {
                *c += pre_spawn_delay_ns;
            }
        }
    }
    // wait for the checker through the reporting variants of join in some runs
    let join_mode = if !drop_without_join && matches!(focus, "C02" | "C03" | "C05" | "C12") && rng.chance(1, 4) { 1 + rng.below(2) as u8 } else { 0 };
    let report_delay_ms = *rng.pick(&[1u16, 5, 50, 1000]);
    S1Scenario {
        graph,
        strategy,
        threads,
        finish,
        target_states,
        target_depth,
        timeout_ns,
        visitor,
        sim_seed: rng.next_u64() >> rng.below(64),
        chooser,
        polls,
        drop_without_join,
        pre_requests,
        join_mode,
        report_delay_ms,
        pre_spawn_delay_ns,
        sched,
    }
}
