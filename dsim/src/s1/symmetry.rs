//! C10 (checker half): DFS with and without symmetry reduction on generated symmetric process
//! models, under the scheduler.

use crate::common::{Counters, RunReport, Violation};
use crate::rng::Rng;
use crate::sched::{Sched, SchedSpec, Shared, SimShutdown};
use serde::{Deserialize, Serialize};
use serde_json::Value;
use stateright::{Checker, Model, Path, Property, Representative, RewritePlan};
use std::collections::{BTreeMap, BTreeSet, VecDeque};
use std::panic::{catch_unwind, AssertUnwindSafe};
use std::sync::Arc;

#[derive(Clone, Debug, Serialize, Deserialize, PartialEq)]
pub enum Pred {
    /// at most `c` processes are in local state `k`
    CountAtMost(u8, u8),
    SomeIn(u8),
    AllIn(u8),
    SharedIs(u8),
}

#[derive(Clone, Debug, Serialize, Deserialize)]
pub struct SymSpec {
    pub procs: usize,
    pub locals: u8,
    pub shared: u8,
    /// `table[l][x]`: moves (l', x') available to a process in local state l when the shared variable is x
    pub table: Vec<Vec<Vec<(u8, u8)>>>,
    /// (is_always, predicate)
    pub props: Vec<(bool, Pred)>,
    pub init_local: u8,
    pub init_shared: u8,
    /// further initial states (process vectors, not necessarily sorted; some may be out of boundary)
    #[serde(default)]
    pub extra_inits: Vec<Vec<u8>>,
    /// states on which this (permutation-invariant) predicate is false are outside the boundary
    #[serde(default)]
    pub boundary: Option<Pred>,
    /// per property: 0 always, 1 sometimes, 2 eventually (empty: derived from the flag in `props`)
    #[serde(default)]
    pub kinds: Vec<u8>,
    /// enable symmetry reduction through `symmetry_fn` instead of `symmetry()`
    #[serde(default)]
    pub via_symmetry_fn: bool,
}
impl SymSpec {
    pub fn kind(&self, i: usize) -> u8 {
        self.kinds.get(i).copied().unwrap_or(if self.props[i].0 { 0 } else { 1 })
    }
}
fn rep_fn(s: &PState) -> PState {
    s.representative()
}

#[derive(Clone, Debug, PartialEq, Eq, Hash, PartialOrd, Ord)]
pub struct PState {
    pub procs: Vec<u8>,
    pub shared: u8,
}

impl Representative for PState {
    fn representative(&self) -> Self {
        // the library's own sort-and-reindex
        let plan: RewritePlan<usize, _> = RewritePlan::from_values_to_sort(&self.procs);
        PState { procs: plan.reindex(&self.procs), shared: self.shared }
    }
}

#[derive(Clone)]
pub struct SymModel(pub Arc<SymSpec>);

fn holds(p: &Pred, s: &PState) -> bool {
    match p {
        Pred::CountAtMost(k, c) => s.procs.iter().filter(|l| **l == *k).count() <= *c as usize,
        Pred::SomeIn(k) => s.procs.iter().any(|l| l == k),
        Pred::AllIn(k) => s.procs.iter().all(|l| l == k),
        Pred::SharedIs(x) => s.shared == *x,
    }
}
macro_rules! q {
    ($n:ident, $i:expr) => {
        fn $n(m: &SymModel, s: &PState) -> bool {
            holds(&m.0.props[$i].1, s)
        }
    };
}
q!(q0, 0);
q!(q1, 1);
q!(q2, 2);
q!(q3, 3);
const QS: [fn(&SymModel, &PState) -> bool; 4] = [q0, q1, q2, q3];
const QN: [&str; 4] = ["q0", "q1", "q2", "q3"];

impl Model for SymModel {
    type State = PState;
    type Action = (u8, u8); // (process, move index)
    fn init_states(&self) -> Vec<PState> {
        let mut v = vec![PState { procs: vec![self.0.init_local; self.0.procs], shared: self.0.init_shared }];
        for e in &self.0.extra_inits {
            let s = PState { procs: e.clone(), shared: self.0.init_shared };
            if !v.contains(&s) {
                v.push(s);
            }
        }
        v
    }
    fn within_boundary(&self, s: &PState) -> bool {
        self.0.boundary.as_ref().map(|p| holds(p, s)).unwrap_or(true)
    }
    fn actions(&self, s: &PState, out: &mut Vec<(u8, u8)>) {
        for (i, l) in s.procs.iter().enumerate() {
            for m in 0..self.0.table[*l as usize][s.shared as usize].len() {
                out.push((i as u8, m as u8));
            }
        }
    }
    fn next_state(&self, s: &PState, a: (u8, u8)) -> Option<PState> {
        let l = s.procs[a.0 as usize];
        let (l2, x2) = *self.0.table[l as usize][s.shared as usize].get(a.1 as usize)?;
        let mut n = s.clone();
        n.procs[a.0 as usize] = l2;
        n.shared = x2;
        Some(n)
    }
    fn properties(&self) -> Vec<Property<Self>> {
        (0..self.0.props.len())
            .map(|i| match self.0.kind(i) {
                0 => Property::always(QN[i], QS[i]),
                1 => Property::sometimes(QN[i], QS[i]),
                _ => Property::eventually(QN[i], QS[i]),
            })
            .collect()
    }
}

#[derive(Clone, Debug, Serialize, Deserialize)]
pub struct SymScenario {
    pub spec: SymSpec,
    pub threads: usize,
    pub sched: SchedSpec,
}

pub fn gen_sym(seed: u64) -> SymScenario {
    let mut rng = Rng::new(seed);
    let procs = rng.range(2, 4) as usize;
    let locals = rng.range(2, 4) as u8;
    let shared = rng.range(1, 3) as u8;
    let table = (0..locals).map(|_| (0..shared).map(|_| (0..rng.below(3)).map(|_| (rng.below(locals as u64) as u8, rng.below(shared as u64) as u8)).collect()).collect()).collect();
    let n_props = rng.range(1, 4) as usize;
    let mut props: Vec<(bool, Pred)> = (0..n_props)
        .map(|_| {
            let k = rng.below(locals as u64) as u8;
            match rng.below(5) {
                0 => (true, Pred::CountAtMost(k, rng.range(0, procs as u64 - 1) as u8)),
                1 => (false, Pred::SomeIn(k)),
                2 => (false, Pred::AllIn(k)),
                3 => (true, Pred::SharedIs(rng.below(shared as u64) as u8)),
                _ => (rng.chance(1, 2), Pred::CountAtMost(k, procs as u8)),
            }
        })
        .collect();
    // one property that can never be discovered keeps both runs exhaustive
    let keep = rng.usize_below(props.len());
    props[keep] = (true, Pred::CountAtMost(0, procs as u8));
    let mut sched = super::gen::gen_sched(&mut rng, 300_000);
    sched.block_size = *rng.pick(&[1usize, 2, 5, 0]);
    let extra_inits = if rng.chance(1, 2) { (0..rng.range(1, 2)).map(|_| (0..procs).map(|_| rng.below(locals as u64) as u8).collect()).collect() } else { vec![] };
    let boundary = if rng.chance(1, 2) { Some(Pred::CountAtMost(rng.below(locals as u64) as u8, rng.range(0, procs as u64) as u8)) } else { None };
    // some of the other properties become eventually-properties (any position in the list)
    let mut kinds: Vec<u8> = props.iter().map(|p| if p.0 { 0 } else { 1 }).collect();
    if rng.chance(1, 2) {
        for (i, k) in kinds.iter_mut().enumerate() {
            if i != keep && rng.chance(1, 2) {
                *k = 2;
            }
        }
    }
    let via_symmetry_fn = rng.chance(1, 3);
    SymScenario { spec: SymSpec { procs, locals, shared, table, props, init_local: 0, init_shared: 0, extra_inits, boundary, kinds, via_symmetry_fn }, threads: 1 + rng.usize_below(3), sched }
}

struct DfsObs {
    discoveries: BTreeMap<String, Vec<PState>>,
    bad_path: Option<String>,
    unique: usize,
    visited: Vec<PState>,
}

fn run_dfs(sc: &SymScenario, symmetry: bool, seed_salt: u64) -> Result<(DfsObs, u64, u64, u64), String> {
    run_checker(sc, symmetry, seed_salt, false)
}

fn run_checker(sc: &SymScenario, symmetry: bool, seed_salt: u64, simulation: bool) -> Result<(DfsObs, u64, u64, u64), String> {
    let model = SymModel(Arc::new(sc.spec.clone()));
    let mut spec = sc.sched.clone();
    spec.seed ^= seed_salt;
    let sched = Sched::new(spec);
    let seen: Shared<Vec<PState>> = Shared::new(Vec::new());
    sched.enter();
    let res = catch_unwind(AssertUnwindSafe(|| {
        let s2 = seen.clone();
        let mut b = model.clone().checker().threads(sc.threads).visitor(move |p: Path<PState, (u8, u8)>| {
            let s = p.last_state().clone();
            s2.with(|l| l.push(s));
        });
        if symmetry {
            b = if sc.spec.via_symmetry_fn { b.symmetry_fn(rep_fn) } else { b.symmetry() };
        }
        let ch: Box<dyn DynChecker> = if simulation {
            Box::new(b.target_state_count(150).spawn_simulation(sc.sched.seed, stateright::UniformChooser).join())
        } else {
            Box::new(b.spawn_dfs().join())
        };
        let mut discoveries = BTreeMap::new();
        let mut bad = None;
        for (name, path) in ch.disc() {
            // re-execute in the original model
            let v = path.into_vec();
            let inits = model.init_states();
            if !inits.contains(&v[0].0) || !model.within_boundary(&v[0].0) {
                bad = Some(format!("{}: path starts in {:?}", name, v[0].0));
            }
            for i in 0..v.len() - 1 {
                match v[i].1 {
                    Some(a) => {
                        if model.next_state(&v[i].0, a).as_ref() != Some(&v[i + 1].0) {
                            bad = Some(format!("{}: step {:?} from {:?} does not lead to {:?}", name, a, v[i].0, v[i + 1].0));
                        }
                    }
                    None => bad = Some(format!("{}: missing action at {}", name, i)),
                }
            }
            discoveries.insert(name.to_string(), v.into_iter().map(|x| x.0).collect());
        }
        (discoveries, bad, ch.uniq())
    }));
    let aborted = sched.aborted();
    let _ = sched.leave(aborted.is_some());
    let st = sched.stats();
    match res {
        Ok((discoveries, bad_path, unique)) => Ok((DfsObs { discoveries, bad_path, unique, visited: seen.with(|l| l.clone()) }, sched.trace_hash(), st.steps, st.final_clock_ns)),
        Err(e) => Err(if e.is::<SimShutdown>() { format!("aborted: {:?}", aborted) } else { "panic".to_string() }),
    }
}

trait DynChecker {
    fn disc(&self) -> std::collections::HashMap<&'static str, Path<PState, (u8, u8)>>;
    fn uniq(&self) -> usize;
}
impl<C: Checker<SymModel>> DynChecker for C {
    fn disc(&self) -> std::collections::HashMap<&'static str, Path<PState, (u8, u8)>> {
        self.discoveries()
    }
    fn uniq(&self) -> usize {
        self.unique_state_count()
    }
}

fn succs(model: &SymModel, s: &PState) -> Vec<PState> {
    let mut acts = Vec::new();
    model.actions(s, &mut acts);
    acts.into_iter().filter_map(|a| model.next_state(s, a)).filter(|n| model.within_boundary(n)).collect()
}

/// Eventually-properties on symmetric process models: a reported counterexample must be a maximal
/// never-satisfying path (C03), and one may only be reported when such a path exists at all (C11).
fn check_eventually(sc: &SymScenario, model: &SymModel, reach: &BTreeSet<PState>, o: &DfsObs, label: &str, simulation: bool, v: &mut Vec<Violation>, c: &mut Counters) {
    for i in 0..sc.spec.props.len() {
        if sc.spec.kind(i) != 2 {
            continue;
        }
        let Some(states) = o.discoveries.get(QN[i]) else { continue };
        c.inc("symmetric_eventually_discoveries");
        let pred = &sc.spec.props[i].1;
        // greatest set X of never-satisfying states from which a maximal never-satisfying path exists
        let mut x: BTreeSet<PState> = reach.iter().filter(|s| !holds(pred, s)).cloned().collect();
        loop {
            let drop: Vec<PState> = x
                .iter()
                .filter(|s| {
                    let n = succs(model, s);
                    !n.is_empty() && !n.iter().any(|t| x.contains(t))
                })
                .cloned()
                .collect();
            if drop.is_empty() {
                break;
            }
            for d in drop {
                x.remove(&d);
            }
        }
        let genuine_exists = model.init_states().iter().any(|s| model.within_boundary(s) && x.contains(s));
        if !genuine_exists {
            v.push(Violation::new("C11", &format!("false-alarm:{}", label), format!("{} ({:?}) reported with path {:?} but every maximal in-boundary path satisfies it", QN[i], pred, states)));
        }
        if let Some(bad) = states.iter().find(|s| holds(pred, s)) {
            v.push(Violation::new("C03", &format!("eventually-path-satisfied:{}", label), format!("{} ({:?}): the reported path {:?} contains {:?}, which satisfies the condition", QN[i], pred, states, bad)));
        }
        let last = states.last().unwrap();
        let extendable = !succs(model, last).is_empty();
        let closes_cycle = simulation && states[..states.len() - 1].iter().any(|e| e.representative() == last.representative());
        if extendable && !closes_cycle {
            v.push(Violation::new("C03", &format!("eventually-path-extendable:{}", label), format!("{} ({:?}): the reported path {:?} ends in a state with in-boundary successors and closes no cycle", QN[i], pred, states)));
        }
    }
}

pub fn execute(sc: &SymScenario) -> (Vec<Violation>, Counters, u64, u64, u64) {
    let mut v = Vec::new();
    let mut c = Counters::default();
    let model = SymModel(Arc::new(sc.spec.clone()));
    // reference reachability
    let mut reach: BTreeSet<PState> = BTreeSet::new();
    let mut q: VecDeque<PState> = model.init_states().into_iter().filter(|s| model.within_boundary(s)).collect();
    for s in q.iter() {
        reach.insert(s.clone());
    }
    while let Some(s) = q.pop_front() {
        let mut acts = Vec::new();
        model.actions(&s, &mut acts);
        for a in acts {
            if let Some(n) = model.next_state(&s, a) {
                if model.within_boundary(&n) && reach.insert(n.clone()) {
                    q.push_back(n);
                }
            }
        }
    }
    let orbits: BTreeSet<PState> = reach
        .iter()
        .map(|s| {
            let mut p = s.procs.clone();
            p.sort();
            PState { procs: p, shared: s.shared }
        })
        .collect();
    let plain = run_dfs(sc, false, 0);
    let sym = run_dfs(sc, true, 0x51);
    // a single-threaded simulation with a given seed and chooser replays the same trace, also with
    // symmetry reduction on and several initial states
    if model.init_states().iter().any(|s| model.within_boundary(s)) {
        let mut one = sc.clone();
        one.threads = 1;
        if let (Ok((a, _, _, _)), Ok((b, _, _, _))) = (run_checker(&one, true, 0x1111, true), run_checker(&one, true, 0x2222, true)) {
            c.inc("seed_replay_with_symmetry_comparisons");
            if a.visited != b.visited {
                let n = a.visited.iter().zip(b.visited.iter()).take_while(|(x, y)| x == y).count();
                v.push(Violation::new("C12", "seed-replay:symmetry", format!("two single-threaded simulation runs with seed {} diverge after {} states: {:?} vs {:?}", sc.sched.seed, n, a.visited.get(n), b.visited.get(n))));
            }
        }
    }
    // the simulation strategy with symmetry: reported paths must be executions of the original model
    // (it never stops by itself when no initial state is inside the boundary)
    let has_init = model.init_states().iter().any(|s| model.within_boundary(s));
    if !has_init {
        c.inc("symmetry_no_in_boundary_init");
    } else {
      match run_checker(sc, true, 0x77, true) {
      Err(e) => {
        if e == "panic" {
            v.push(Violation::new("C10", "path:Simulation", "simulation with symmetry: discoveries() (path reconstruction) panicked".to_string()));
            v.push(Violation::new("C03", "path-not-executable:Simulation+symmetry", "simulation with symmetry: discoveries() panicked while rebuilding a path".to_string()));
        }
      }
      Ok((so, _, _, _)) => {
        c.inc("simulation_with_symmetry_runs");
        if let Some(b) = &so.bad_path {
            v.push(Violation::new("C10", "path:Simulation", format!("simulation with symmetry: {}", b)));
            v.push(Violation::new("C03", "path-not-executable:Simulation+symmetry", format!("simulation with symmetry: {}", b)));
        }
        check_eventually(sc, &model, &reach, &so, "Simulation+symmetry", true, &mut v, &mut c);
        for (name, states) in &so.discoveries {
            let i = QN.iter().position(|n| n == name).unwrap();
            let (always, pred) = &sc.spec.props[i];
            let last = states.last().unwrap();
            if sc.spec.kind(i) != 2 && *always == holds(pred, last) {
                v.push(Violation::new("C10", "path:Simulation", format!("simulation with symmetry: the path for {} ends in {:?}, which is no witness", name, last)));
                v.push(Violation::new("C03", "last-state-not-witness:Simulation+symmetry", format!("simulation with symmetry: the path for {} ends in {:?}, which is no witness", name, last)));
            }
        }
      }
      }
    }
    let (mut sig, mut steps, mut clock) = (0, 0, 0);
    match (plain, sym) {
        (Ok((p, h1, s1, c1)), Ok((s, h2, s2, c2))) => {
            sig = h1 ^ h2.rotate_left(17);
            steps = s1 + s2;
            clock = c1 + c2;
            c.inc("symmetry_pairs_run");
            c.add("symmetry_states_saved", (p.unique as u64).saturating_sub(s.unique as u64));
            // eventually-verdicts are legitimately path-dependent (C11): only always/sometimes are compared
            let verdicts = |o: &DfsObs| -> BTreeSet<String> { o.discoveries.keys().filter(|n| sc.spec.kind(QN.iter().position(|q| q == n).unwrap()) != 2).cloned().collect() };
            check_eventually(sc, &model, &reach, &p, "Dfs", false, &mut v, &mut c);
            check_eventually(sc, &model, &reach, &s, "Dfs+symmetry", false, &mut v, &mut c);
            if verdicts(&p) != verdicts(&s) {
                v.push(Violation::new("C10", "verdict", format!("verdicts without symmetry {:?}, with symmetry {:?} ({} processes, {} threads)", verdicts(&p), verdicts(&s), sc.spec.procs, sc.threads)));
            }
            // also against the reference
            for (i, (always, pred)) in sc.spec.props.iter().enumerate() {
                if sc.spec.kind(i) == 2 {
                    continue;
                }
                let exists = if *always { reach.iter().any(|st| !holds(pred, st)) } else { reach.iter().any(|st| holds(pred, st)) };
                if exists != s.discoveries.contains_key(QN[i]) {
                    v.push(Violation::new("C10", "verdict", format!("with symmetry {} ({:?}, always={}): witness exists = {}, reported = {}", QN[i], pred, always, exists, !exists)));
                    let class = match (always, exists) {
                        (true, true) => "missed-always:symmetry",
                        (true, false) => "false-always:symmetry",
                        (false, true) => "missed-sometimes:symmetry",
                        (false, false) => "false-sometimes:symmetry",
                    };
                    v.push(Violation::new("C02", class, format!("DFS with symmetry, {} ({:?}): a witness among the reachable in-boundary states exists = {}, reported = {}", QN[i], pred, exists, !exists)));
                }
            }
            if s.unique > p.unique || s.unique < orbits.len() {
                v.push(Violation::new("C10", "count", format!("with symmetry {} states were evaluated; symmetry classes {}, unreduced {}", s.unique, orbits.len(), p.unique)));
            }
            let seen_orbits: BTreeSet<PState> = s.visited.iter().map(|x| x.representative()).collect();
            for o in &orbits {
                if !seen_orbits.contains(o) {
                    v.push(Violation::new("C10", "orbit-missed", format!("no state of the symmetry class {:?} was evaluated", o)));
                    break;
                }
            }
            if let Some(b) = &s.bad_path {
                v.push(Violation::new("C10", "path", format!("with symmetry: {}", b)));
                v.push(Violation::new("C03", "path-not-executable:Dfs+symmetry", format!("DFS with symmetry: {}", b)));
            }
            if let Some(b) = &p.bad_path {
                v.push(Violation::new("C10", "path", format!("without symmetry: {}", b)));
            }
            // witnesses
            for (name, states) in &s.discoveries {
                let i = QN.iter().position(|n| n == name).unwrap();
                let (always, pred) = &sc.spec.props[i];
                let last = states.last().unwrap();
                if sc.spec.kind(i) != 2 && *always == holds(pred, last) {
                    v.push(Violation::new("C10", "path", format!("with symmetry: the path for {} ends in {:?}, which is no witness", name, last)));
                }
            }
        }
        (a, b) => {
            let msg = format!("{:?} / {:?}", a.err(), b.err());
            v.push(Violation::new("C10", "no-termination", format!("a DFS run did not complete: {}", msg)));
        }
    }
    (v, c, sig, steps, clock)
}

pub fn run_case(focus: &str, seed: u64) -> (RunReport, Value) {
    let sc = gen_sym(seed);
    let (mut v, c, sig, steps, clock) = execute(&sc);
    v.retain(|x| x.property == focus);
    (RunReport { violations: v, counters: c, signature: sig, nontrivial: steps >= 40, sim_time_ns: clock, steps, case_hashes: vec![] }, serde_json::to_value(&sc).unwrap())
}

pub fn replay(focus: &str, scenario: &Value) -> Result<RunReport, String> {
    let sc: SymScenario = serde_json::from_value(scenario.clone()).map_err(|e| e.to_string())?;
    let (mut v, c, sig, steps, clock) = execute(&sc);
    v.retain(|x| x.property == focus);
    Ok(RunReport { violations: v, counters: c, signature: sig, nontrivial: true, sim_time_ns: clock, steps, case_hashes: vec![] })
}

pub fn summary(scenario: &Value) -> Value {
    serde_json::json!({"symmetric_process_model": {"procs": scenario["spec"]["procs"], "locals": scenario["spec"]["locals"], "shared": scenario["spec"]["shared"], "props": scenario["spec"]["props"]}, "threads": scenario["threads"], "block_size": scenario["sched"]["block_size"]})
}

pub fn shrink_candidates(scenario: &Value) -> Vec<Value> {
    let Ok(sc) = serde_json::from_value::<SymScenario>(scenario.clone()) else { return vec![] };
    let mut out = Vec::new();
    if sc.threads > 1 {
        let mut s = sc.clone();
        s.threads = 1;
        out.push(s);
    }
    if sc.spec.procs > 2 {
        let mut s = sc.clone();
        s.spec.procs -= 1;
        out.push(s);
    }
    for l in 0..sc.spec.table.len() {
        for x in 0..sc.spec.table[l].len() {
            for m in 0..sc.spec.table[l][x].len() {
                let mut s = sc.clone();
                s.spec.table[l][x].remove(m);
                out.push(s);
            }
        }
    }
    out.into_iter().map(|s| serde_json::to_value(&s).unwrap()).collect()
}
