//! Generated finite models (explicit transition graphs) and the independent reference analysis.

use crate::rng::Rng;
use crate::sched::Sched;
use serde::{Deserialize, Serialize};
use stateright::{Model, Property};
use std::collections::{BTreeMap, BTreeSet, VecDeque};
use std::sync::atomic::{AtomicBool, Ordering};
use std::sync::Arc;

#[derive(Clone, Copy, Debug, Serialize, Deserialize, PartialEq, Eq)]
pub enum Kind {
    Always,
    Sometimes,
    Eventually,
}

#[derive(Clone, Debug, Serialize, Deserialize)]
pub struct PropSpec {
    pub kind: Kind,
    /// Truth value of the condition per state.
    pub bits: Vec<bool>,
}

#[derive(Clone, Debug, Serialize, Deserialize, PartialEq)]
pub enum PanicSite {
    Actions(u16),
    NextState(u16),
    Cond(usize, u16),
    Boundary(u16),
    Visitor(u16),
}

#[derive(Clone, Debug, Serialize, Deserialize)]
pub struct Graph {
    pub shape: String,
    pub n: usize,
    pub inits: Vec<u16>,
    /// `edges[s][a]`: target of action `a` at state `s`, or `None` when the action is ignored.
    pub edges: Vec<Vec<Option<u16>>>,
    pub boundary: Vec<bool>,
    pub props: Vec<PropSpec>,
    #[serde(default)]
    pub panic: Option<PanicSite>,
    /// When set, state `n-1` and every state `s >= n` (up to 65535) has an extra edge to `s+1`:
    /// an effectively unbounded counter tail (used for timeout scenarios).
    #[serde(default)]
    pub tail: bool,
    /// `format_step` returns `None` for some real transitions (legal: it is only a rendering).
    #[serde(default)]
    pub mute_steps: bool,
}

impl Graph {
    pub fn edges_at(&self, s: u16) -> Vec<Option<u16>> {
        let su = s as usize;
        if su < self.n {
            let mut e = self.edges[su].clone();
            if self.tail && su == self.n - 1 && s < u16::MAX {
                e.push(Some(s + 1));
            }
            e
        } else if self.tail && s < u16::MAX {
            vec![Some(s + 1)]
        } else {
            vec![]
        }
    }
    pub fn in_boundary(&self, s: u16) -> bool {
        let su = s as usize;
        if su < self.n {
            self.boundary[su]
        } else {
            self.tail
        }
    }
    pub fn bit(&self, i: usize, s: u16) -> bool {
        let su = (s as usize).min(self.n - 1);
        self.props[i].bits[su]
    }
    pub fn exists(&self, s: u16) -> bool {
        (s as usize) < self.n || self.tail
    }
}

pub const NAMES: [&str; 80] = ["p0", "p1", "p2", "p3", "p4", "p5", "p6", "p7", "p8", "p9", "p10", "p11", "p12", "p13", "p14", "p15", "p16", "p17", "p18", "p19", "p20", "p21", "p22", "p23", "p24", "p25", "p26", "p27", "p28", "p29", "p30", "p31", "p32", "p33", "p34", "p35", "p36", "p37", "p38", "p39", "p40", "p41", "p42", "p43", "p44", "p45", "p46", "p47", "p48", "p49", "p50", "p51", "p52", "p53", "p54", "p55", "p56", "p57", "p58", "p59", "p60", "p61", "p62", "p63", "p64", "p65", "p66", "p67", "p68", "p69", "p70", "p71", "p72", "p73", "p74", "p75", "p76", "p77", "p78", "p79"];

/// The model handed to stateright.
#[derive(Clone)]
pub struct GModel {
    pub g: Arc<Graph>,
    pub panic_armed: Arc<AtomicBool>,
    /// how many times `within_boundary` answered true (once per initial state and per generated
    /// successor): the number of states the checker generated, counted on the model's side
    pub generated: Arc<std::sync::atomic::AtomicUsize>,
}

impl GModel {
    pub fn new(g: Graph) -> Self {
        let armed = g.panic.is_some();
        GModel { g: Arc::new(g), panic_armed: Arc::new(AtomicBool::new(armed)), generated: Arc::new(std::sync::atomic::AtomicUsize::new(0)) }
    }
    pub fn maybe_panic(&self, site: PanicSite) {
        if self.g.panic.as_ref() == Some(&site) {
            // only on worker threads (never the harness thread), and only once
            if Sched::current_tid().map(|t| t != 0).unwrap_or(false)
                && self.panic_armed.swap(false, Ordering::SeqCst)
            {
                // from the moment a stop reason exists the schedule is fair, so that "all the
                // others stop too" can be judged against a step budget
                if let Some(s) = Sched::current() {
                    s.calm_now();
                }
                panic!("injected model panic at {:?}", site);
            }
        }
    }
}

macro_rules! cond {
    ($name:ident, $i:expr) => {
        fn $name(m: &GModel, s: &u16) -> bool {
            m.maybe_panic(PanicSite::Cond($i, *s));
            m.g.bit($i, *s)
        }
    };
}
cond!(c0, 0);
cond!(c1, 1);
cond!(c2, 2);
cond!(c3, 3);
cond!(c4, 4);
cond!(c5, 5);
cond!(c6, 6);
cond!(c7, 7);
cond!(c8, 8);
cond!(c9, 9);
cond!(c10, 10);
cond!(c11, 11);
cond!(c12, 12);
cond!(c13, 13);
cond!(c14, 14);
cond!(c15, 15);
cond!(c16, 16);
cond!(c17, 17);
cond!(c18, 18);
cond!(c19, 19);
cond!(c20, 20);
cond!(c21, 21);
cond!(c22, 22);
cond!(c23, 23);
cond!(c24, 24);
cond!(c25, 25);
cond!(c26, 26);
cond!(c27, 27);
cond!(c28, 28);
cond!(c29, 29);
cond!(c30, 30);
cond!(c31, 31);
cond!(c32, 32);
cond!(c33, 33);
cond!(c34, 34);
cond!(c35, 35);
cond!(c36, 36);
cond!(c37, 37);
cond!(c38, 38);
cond!(c39, 39);
cond!(c40, 40);
cond!(c41, 41);
cond!(c42, 42);
cond!(c43, 43);
cond!(c44, 44);
cond!(c45, 45);
cond!(c46, 46);
cond!(c47, 47);
cond!(c48, 48);
cond!(c49, 49);
cond!(c50, 50);
cond!(c51, 51);
cond!(c52, 52);
cond!(c53, 53);
cond!(c54, 54);
cond!(c55, 55);
cond!(c56, 56);
cond!(c57, 57);
cond!(c58, 58);
cond!(c59, 59);
cond!(c60, 60);
cond!(c61, 61);
cond!(c62, 62);
cond!(c63, 63);
cond!(c64, 64);
cond!(c65, 65);
cond!(c66, 66);
cond!(c67, 67);
cond!(c68, 68);
cond!(c69, 69);
cond!(c70, 70);
cond!(c71, 71);
cond!(c72, 72);
cond!(c73, 73);
cond!(c74, 74);
cond!(c75, 75);
cond!(c76, 76);
cond!(c77, 77);
cond!(c78, 78);
cond!(c79, 79);
const CONDS: [fn(&GModel, &u16) -> bool; 80] = [c0, c1, c2, c3, c4, c5, c6, c7, c8, c9, c10, c11, c12, c13, c14, c15, c16, c17, c18, c19, c20, c21, c22, c23, c24, c25, c26, c27, c28, c29, c30, c31, c32, c33, c34, c35, c36, c37, c38, c39, c40, c41, c42, c43, c44, c45, c46, c47, c48, c49, c50, c51, c52, c53, c54, c55, c56, c57, c58, c59, c60, c61, c62, c63, c64, c65, c66, c67, c68, c69, c70, c71, c72, c73, c74, c75, c76, c77, c78, c79];

impl Model for GModel {
    type State = u16;
    type Action = u16;
    fn init_states(&self) -> Vec<u16> {
        self.g.inits.clone()
    }
    fn actions(&self, s: &u16, out: &mut Vec<u16>) {
        self.maybe_panic(PanicSite::Actions(*s));
        out.extend(0..self.g.edges_at(*s).len() as u16);
    }
    fn next_state(&self, s: &u16, a: u16) -> Option<u16> {
        self.maybe_panic(PanicSite::NextState(*s));
        self.g.edges_at(*s).get(a as usize).cloned().flatten()
    }
    fn format_step(&self, s: &u16, a: u16) -> Option<String> {
        if self.g.mute_steps && (*s + a) % 2 == 0 {
            return None;
        }
        self.next_state(s, a).map(|n| format!("{:#?}", n))
    }
    fn within_boundary(&self, s: &u16) -> bool {
        self.maybe_panic(PanicSite::Boundary(*s));
        let inb = self.g.in_boundary(*s);
        if inb {
            self.generated.fetch_add(1, Ordering::Relaxed);
        }
        inb
    }
    fn properties(&self) -> Vec<Property<Self>> {
        self.g
            .props
            .iter()
            .enumerate()
            .map(|(i, p)| match p.kind {
                Kind::Always => Property::always(NAMES[i], CONDS[i]),
                Kind::Sometimes => Property::sometimes(NAMES[i], CONDS[i]),
                Kind::Eventually => Property::eventually(NAMES[i], CONDS[i]),
            })
            .collect()
    }
}

#[derive(Clone, Debug)]
pub struct GenOpts {
    pub max_states: usize,
    pub shapes: Vec<&'static str>,
    pub min_props: usize,
    pub max_props: usize,
    pub kinds: Vec<Kind>,
    /// Force one property that can never be discovered (keeps exhaustive runs exhaustive).
    pub undiscoverable: bool,
    pub boundary: bool,
    pub ignored: bool,
    /// occasionally 62-78 properties (more than fit in a machine word)
    pub many_props: bool,
}

fn gen_bits(rng: &mut Rng, n: usize) -> Vec<bool> {
    match rng.below(6) {
        0 => vec![true; n],
        1 => vec![false; n],
        k => {
            let pct = [10u64, 50, 90, 97][(k - 2) as usize];
            (0..n).map(|_| rng.chance(pct, 100)).collect()
        }
    }
}

pub fn gen_graph(rng: &mut Rng, o: &GenOpts) -> Graph {
    let shape = *rng.pick(&o.shapes);
    let n = match rng.below(4) {
        0 => rng.range(1, 6),
        1 => rng.range(4, 16),
        _ => rng.range(8, o.max_states.max(9) as u64),
    } as usize;
    let n = if shape == "widefan" { 2 * (*rng.pick(&[1_100usize, 2_100, 4_200, 8_300])) + 1 } else { n };
    let mut edges: Vec<Vec<Option<u16>>> = vec![Vec::new(); n];
    let mut inits: Vec<u16> = Vec::new();
    let n_inits = (1 + rng.below(3) as usize).min(n);
    match shape {
        "forest" => {
            // roots are the initial states; every other state has exactly one parent among the
            // states created before it
            for s in 0..n {
                if s < n_inits {
                    inits.push(s as u16);
                } else {
                    let parent = if rng.chance(1, 2) { rng.usize_below(s) } else { s - 1 - rng.usize_below(s.min(3)) };
                    edges[parent].push(Some(s as u16));
                }
            }
        }
        "widefan" => {
            // one root, `w` children, one grandchild per child: a breadth-first level wider than
            // any queue-size threshold a checker might have (n = 2w + 1, set by the caller)
            inits.push(0);
            let w = (n - 1) / 2;
            for c in 1..=w {
                edges[0].push(Some(c as u16));
                edges[c].push(Some((w + c) as u16));
            }
        }
        "chain" => {
            inits.push(0);
            for s in 0..n.saturating_sub(1) {
                edges[s].push(Some(s as u16 + 1));
            }
        }
        "fan" => {
            inits.push(0);
            for s in 1..n {
                edges[0].push(Some(s as u16));
                if rng.chance(1, 3) && s + 1 < n {
                    edges[s].push(Some(s as u16 + 1));
                }
            }
        }
        "dag" => {
            for s in 0..n {
                let k = rng.below(4) as usize;
                for _ in 0..k {
                    if s + 1 < n {
                        let t = s + 1 + rng.usize_below(n - s - 1);
                        edges[s].push(Some(t as u16));
                    }
                }
            }
        }
        _ => {
            // general: self loops, back edges, joins
            let selfloop_pct = *rng.pick(&[0u64, 5, 20]);
            for s in 0..n {
                let k = rng.below(5) as usize;
                for _ in 0..k {
                    let t = if rng.chance(selfloop_pct, 100) { s } else { rng.usize_below(n) };
                    edges[s].push(Some(t as u16));
                }
            }
        }
    }
    if inits.is_empty() {
        let mut pool: Vec<u16> = (0..n as u16).collect();
        if shape != "dag" || rng.chance(1, 2) {
            inits.push(0);
            pool.remove(0);
        }
        while inits.len() < n_inits && !pool.is_empty() {
            let i = rng.usize_below(pool.len());
            inits.push(pool.remove(i));
        }
    }
    // ignored actions, anywhere
    if o.ignored && rng.chance(1, 2) {
        for s in 0..n {
            let mut i = 0;
            while i <= edges[s].len() {
                if rng.chance(1, 10) {
                    edges[s].insert(i, None);
                    i += 1;
                }
                i += 1;
            }
        }
    }
    // shuffle action order (except for forests/chains it does not matter either)
    for s in 0..n {
        rng.shuffle(&mut edges[s]);
    }
    let boundary: Vec<bool> = if o.boundary && rng.chance(1, 2) {
        let pct = *rng.pick(&[5u64, 15, 40]);
        (0..n).map(|_| !rng.chance(pct, 100)).collect()
    } else {
        vec![true; n]
    };
    let n_props = rng.range(o.min_props as u64, o.max_props as u64) as usize;
    let mut props: Vec<PropSpec> = (0..n_props)
        .map(|_| PropSpec { kind: *rng.pick(&o.kinds), bits: gen_bits(rng, n) })
        .collect();
    if o.many_props && rng.chance(1, 40) {
        // more properties than bits in a machine word: fillers that are never discovered (always
        // true / never true) around the generated ones, which land at arbitrary positions
        let total = rng.range(62, 79) as usize;
        while props.len() < total {
            let filler = if rng.chance(1, 2) { PropSpec { kind: Kind::Always, bits: vec![true; n] } } else { PropSpec { kind: Kind::Sometimes, bits: vec![false; n] } };
            let i = if rng.chance(1, 2) { 0 } else { rng.usize_below(props.len() + 1) };
            props.insert(i, filler);
        }
        // an eventually-property exactly one machine word of positions after another one
        if rng.chance(1, 2) && props.len() > 65 && o.kinds.contains(&Kind::Eventually) {
            let j = rng.usize_below(props.len() - 64);
            props[j] = PropSpec { kind: Kind::Eventually, bits: gen_bits(rng, n) };
            props[j + 64] = PropSpec { kind: Kind::Eventually, bits: gen_bits(rng, n) };
        }
    }
    if o.undiscoverable {
        let p = if rng.chance(1, 2) {
            PropSpec { kind: Kind::Always, bits: vec![true; n] }
        } else {
            PropSpec { kind: Kind::Sometimes, bits: vec![false; n] }
        };
        if props.len() >= NAMES.len() || (props.len() >= o.max_props && !props.is_empty()) {
            let i = rng.usize_below(props.len());
            props[i] = p;
        } else {
            let i = rng.usize_below(props.len() + 1);
            props.insert(i, p);
        }
    }
    Graph { shape: shape.to_string(), n, inits, edges, boundary, props, panic: None, tail: false, mute_steps: false }
}

/// Independent single-threaded analysis of a graph. No stateright code involved.
pub struct Reference {
    /// Reachable in-boundary states with their 1-based shortest depth.
    pub depth: BTreeMap<u16, usize>,
    /// In-boundary successors (with the action index) per reachable state.
    pub succ: BTreeMap<u16, Vec<(u16, u16)>>,
    pub transitions: usize,
    pub is_forest: bool,
}

impl Reference {
    pub fn new(g: &Graph) -> Self {
        let mut depth = BTreeMap::new();
        let mut succ: BTreeMap<u16, Vec<(u16, u16)>> = BTreeMap::new();
        let mut q = VecDeque::new();
        let mut in_paths: BTreeMap<u16, usize> = BTreeMap::new();
        for &i in &g.inits {
            if g.in_boundary(i) {
                *in_paths.entry(i).or_insert(0) += 1;
                if !depth.contains_key(&i) {
                    depth.insert(i, 1usize);
                    q.push_back(i);
                }
            }
        }
        let mut transitions = 0;
        while let Some(s) = q.pop_front() {
            let d = depth[&s];
            let mut out = Vec::new();
            for (a, t) in g.edges_at(s).iter().enumerate() {
                if let Some(t) = t {
                    if g.in_boundary(*t) {
                        transitions += 1;
                        out.push((a as u16, *t));
                        *in_paths.entry(*t).or_insert(0) += 1;
                        if !depth.contains_key(t) {
                            depth.insert(*t, d + 1);
                            q.push_back(*t);
                        }
                    }
                }
            }
            succ.insert(s, out);
        }
        // forest: every reachable state has exactly one incoming "way" (root or single edge from a
        // reachable state), which implies exactly one path when there are no cycles; with exactly
        // one incoming way per state, a cycle would have no entry from a root, so it is unreachable.
        let is_forest = depth.keys().all(|s| in_paths.get(s) == Some(&1));
        Reference { depth, succ, transitions, is_forest }
    }
    pub fn reachable(&self) -> BTreeSet<u16> {
        self.depth.keys().cloned().collect()
    }
    pub fn is_terminal(&self, s: u16) -> bool {
        self.succ.get(&s).map(|v| v.is_empty()).unwrap_or(true)
    }
    /// Is there a maximal in-boundary path from an initial state on which `bits` is never true?
    pub fn eventually_counterexample_exists(&self, g: &Graph, prop: usize) -> bool {
        let bit = |s: u16| g.bit(prop, s);
        // explore the non-satisfying subgraph
        let mut seen = BTreeSet::new();
        let mut stack: Vec<u16> = Vec::new();
        for &i in &g.inits {
            if self.depth.contains_key(&i) && !bit(i) && seen.insert(i) {
                stack.push(i);
            }
        }
        let mut sub: BTreeMap<u16, Vec<u16>> = BTreeMap::new();
        while let Some(s) = stack.pop() {
            if self.is_terminal(s) {
                return true;
            }
            let mut outs = Vec::new();
            for (_, t) in &self.succ[&s] {
                if !bit(*t) {
                    outs.push(*t);
                    if seen.insert(*t) {
                        stack.push(*t);
                    }
                }
            }
            sub.insert(s, outs);
        }
        // any cycle in the explored non-satisfying subgraph gives an infinite path
        let mut color: BTreeMap<u16, u8> = BTreeMap::new();
        fn dfs(s: u16, sub: &BTreeMap<u16, Vec<u16>>, color: &mut BTreeMap<u16, u8>) -> bool {
            color.insert(s, 1);
            for t in sub.get(&s).into_iter().flatten() {
                match color.get(t).cloned().unwrap_or(0) {
                    0 => {
                        if dfs(*t, sub, color) {
                            return true;
                        }
                    }
                    1 => return true,
                    _ => {}
                }
            }
            color.insert(s, 2);
            false
        }
        for s in seen.iter() {
            if color.get(s).cloned().unwrap_or(0) == 0 && dfs(*s, &sub, &mut color) {
                return true;
            }
        }
        false
    }
    /// Validates a path of `(state, Some(action))… (state, None)`; returns the states.
    pub fn validate_path(&self, g: &Graph, path: &[(u16, Option<u16>)]) -> Result<Vec<u16>, String> {
        if path.is_empty() {
            return Err("empty path".into());
        }
        let first = path[0].0;
        if !g.inits.contains(&first) {
            return Err(format!("path does not start in an initial state ({})", first));
        }
        let mut states = Vec::new();
        for (i, (s, a)) in path.iter().enumerate() {
            if !g.exists(*s) {
                return Err(format!("state {} does not exist", s));
            }
            if !g.in_boundary(*s) {
                return Err(format!("path-leaves-boundary: state {} at position {}", s, i));
            }
            states.push(*s);
            match (a, path.get(i + 1)) {
                (Some(a), Some((t, _))) => {
                    let e = g.edges_at(*s).get(*a as usize).cloned().flatten();
                    if e != Some(*t) {
                        return Err(format!(
                            "path-not-executable: action {} at state {} leads to {:?}, path says {}",
                            a, s, e, t
                        ));
                    }
                }
                (None, None) => {}
                (Some(_), None) => return Err("path ends with an action".into()),
                (None, Some(_)) => return Err("path has a gap".into()),
            }
        }
        Ok(states)
    }
}
