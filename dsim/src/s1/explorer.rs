//! C19 — Explorer handlers, the on-demand checker and the Path API, against the generated graph.

use super::graph::*;
use super::run::{path_to_vec, Finish};
use crate::common::{Counters, Violation};
use crate::rng::Rng;
use crate::sched::{AbortReason, Sched, SchedSpec, Shared, SimShutdown};
use serde::{Deserialize, Serialize};
use stateright::{verif_explorer, verif_fingerprint, Checker, CheckerVisitor, Model, Path};
use std::collections::{BTreeMap, BTreeSet};
use std::num::NonZeroU64;
use std::panic::{catch_unwind, AssertUnwindSafe};
use std::sync::Arc;

#[derive(Clone, Debug, Serialize, Deserialize)]
pub enum Req {
    /// `GET /.states/<fps>` for the walk prefix of this length (0 = the initial states)
    States(usize),
    /// the same path with one fingerprint replaced / the path reversed / garbage
    StatesMutated(usize, u8),
    Status,
    /// `check_fingerprint` of the walk state at this index
    Check(usize),
    /// `check_fingerprint` of a fingerprint that belongs to no state
    CheckBogus,
}

#[derive(Clone, Debug, Serialize, Deserialize)]
pub struct ExplorerScenario {
    pub graph: Graph,
    pub threads: usize,
    /// reference walk: indices into the action list at each step, starting from `walk_init`
    pub walk_init: u16,
    pub walk_actions: Vec<u16>,
    pub requests: Vec<Req>,
    /// extra browser threads that poll `status`
    pub browsers: usize,
    /// serve the model with the real HTTP server on the loopback interface and speak HTTP to it
    /// (outside the simulation: real sockets and threads; only replies that arrived are judged)
    #[serde(default)]
    pub http: bool,
    pub sched: SchedSpec,
}

struct Both<A, B>(A, B);
impl<A: CheckerVisitor<GModel>, B: CheckerVisitor<GModel>> CheckerVisitor<GModel> for Both<A, B> {
    fn visit(&self, m: &GModel, p: Path<u16, u16>) {
        self.0.visit(m, p.clone());
        self.1.visit(m, p);
    }
}

pub fn gen_explorer(seed: u64) -> ExplorerScenario {
    let mut rng = Rng::new(seed);
    let o = GenOpts {
        max_states: 30,
        shapes: vec!["general", "dag", "forest", "forest", "fan"],
        min_props: 0,
        max_props: 3,
        kinds: vec![Kind::Always, Kind::Sometimes, Kind::Eventually],
        undiscoverable: true,
        boundary: true,
        ignored: true,
        many_props: false,
    };
    let mut graph = gen_graph(&mut rng, &o);
    graph.mute_steps = rng.chance(1, 3);
    // a reference walk inside the boundary
    if !graph.inits.iter().any(|i| graph.in_boundary(*i)) {
        let f = graph.inits[0];
        graph.boundary[f as usize] = true;
    }
    let rf = Reference::new(&graph);
    let inits: Vec<u16> = graph.inits.iter().cloned().filter(|i| graph.in_boundary(*i)).collect();
    let walk_init = *rng.pick(&inits);
    let mut walk_actions = Vec::new();
    let mut cur = walk_init;
    for _ in 0..rng.below(6) {
        let succ = &rf.succ[&cur];
        if succ.is_empty() {
            break;
        }
        let (a, t) = *rng.pick(succ);
        walk_actions.push(a);
        cur = t;
    }
    let n_req = rng.range(1, 10);
    let requests = (0..n_req)
        .map(|_| match rng.below(10) {
            0..=2 => Req::States(rng.usize_below(walk_actions.len() + 2)),
            3 => Req::StatesMutated(rng.usize_below(walk_actions.len() + 2), rng.below(4) as u8),
            4 => Req::Status,
            5..=7 => Req::Check(rng.usize_below(walk_actions.len() + 1)),
            _ => Req::CheckBogus,
        })
        .collect();
    let mut sched = super::gen::gen_sched(&mut rng, 300_000);
    sched.block_size = *rng.pick(&[1usize, 1, 2, 3, 0]);
    ExplorerScenario { graph, threads: 1 + rng.usize_below(3), walk_init, walk_actions, requests, browsers: rng.usize_below(3), http: seed % 500 == 0, sched }
}

fn fp(s: u16) -> u64 {
    verif_fingerprint(&s)
}

fn walk_states(sc: &ExplorerScenario) -> Vec<u16> {
    let mut out = vec![sc.walk_init];
    let mut cur = sc.walk_init;
    for a in &sc.walk_actions {
        match sc.graph.edges_at(cur).get(*a as usize).cloned().flatten() {
            Some(t) => {
                out.push(t);
                cur = t;
            }
            None => break,
        }
    }
    out
}

/// Does this fingerprint sequence denote an execution of the model (initial state, then
/// non-ignored transitions)? Returns the final state.
fn denotes(g: &Graph, fps: &[u64]) -> Option<u16> {
    let first = *fps.first()?;
    let mut cur = g.inits.iter().cloned().find(|s| fp(*s) == first)?;
    for f in &fps[1..] {
        cur = g.edges_at(cur).iter().flatten().cloned().find(|t| fp(*t) == *f)?;
    }
    Some(cur)
}


/// `status`: one entry per property, in order, each discovery path decoding to a genuine witness.
fn judge_status_props(g: &Graph, rf: &Reference, all_fps: &BTreeMap<u64, u16>, st: &serde_json::Value, local_v: &mut Vec<Violation>, cc: &mut Counters) {
    let props = st["properties"].as_array().cloned().unwrap_or_default();
    if props.len() != g.props.len() {
        local_v.push(Violation::new("C19", "status", format!("status lists {} properties, the model has {}", props.len(), g.props.len())));
    }
    for (i, p) in props.iter().enumerate() {
        let name = p[1].as_str().unwrap_or("");
        if name != NAMES[i] {
            local_v.push(Violation::new("C19", "status", format!("property {} is listed as {:?}", NAMES[i], name)));
        }
        if let Some(enc) = p[2].as_str() {
            // decode the fingerprint path and validate the witness
            let states: Option<Vec<u16>> = enc.split('/').map(|f| f.parse::<u64>().ok().and_then(|f| all_fps.get(&f).cloned())).collect();
            let ok = match &states {
                None => false,
                Some(states) => {
                    let fps: Vec<u64> = states.iter().map(|s| fp(*s)).collect();
                    let exec = denotes(g, &fps).is_some() && states.iter().all(|s| g.in_boundary(*s));
                    let last = *states.last().unwrap();
                    let wit = match g.props[i].kind {
                        Kind::Always => !g.bit(i, last),
                        Kind::Sometimes => g.bit(i, last),
                        Kind::Eventually => states.iter().all(|s| !g.bit(i, *s)) && rf.is_terminal(last),
                    };
                    exec && wit
                }
            };
            cc.inc("status_discovery_paths_decoded");
            if !ok {
                local_v.push(Violation::new("C19", "status", format!("status path {:?} for {} {:?} does not decode to a genuine witness ({:?})", enc, name, g.props[i].kind, states)));
            }
        }
    }
}

/// Does the reply of the states endpoint list exactly `exp` (action index, successor or ignored)?
fn judge_states_reply(g: &Graph, fps: &[u64], exp: &[(u16, Option<u16>)], val: &serde_json::Value, asked: &mut Vec<u16>) -> bool {
    let arr = val.as_array().cloned().unwrap_or_default();
    let mut ok = arr.len() == exp.len();
    if ok {
        for (view, (a, t)) in arr.iter().zip(exp) {
            let action_ok = if *a == u16::MAX { view.get("action").is_none() } else { view["action"].as_str() == Some(&format!("{:?}", a)) };
            let state_ok = match t {
                Some(t) => view["state"].as_str() == Some(&format!("{:#?}", t)) && view["fingerprint"].as_str() == Some(&format!("{}", fp(*t))),
                None => view.get("state").is_none() && view.get("fingerprint").is_none(),
            };
            let outcome_ok = if *a == u16::MAX {
                true
            } else {
                let last = denotes(g, fps).unwrap_or(0);
                let muted = g.mute_steps && (last + *a) % 2 == 0;
                match t {
                    Some(t) if !muted => view["outcome"].as_str() == Some(&format!("{:#?}", t)),
                    _ => view.get("outcome").is_none(),
                }
            };
            if !(action_ok && state_ok && outcome_ok) {
                ok = false;
            }
            if let Some(t) = t {
                asked.push(*t);
            }
        }
    }
    ok
}

pub struct ExOutcome {
    pub violations: Vec<Violation>,
    pub counters: Counters,
    pub trace_hash: u64,
    pub steps: u64,
    pub clock: u64,
    pub visits: usize,
}

/// One HTTP/1.0 exchange with the Explorer on the loopback interface. `None`: no (complete) reply.
fn http(port: u16, method: &str, path: &str) -> Option<(u16, Vec<u8>)> {
    use std::io::{Read, Write};
    let mut s = std::net::TcpStream::connect(("127.0.0.1", port)).ok()?;
    s.set_read_timeout(Some(std::time::Duration::from_secs(20))).ok()?;
    s.set_write_timeout(Some(std::time::Duration::from_secs(20))).ok()?;
    let body = if method == "POST" { "Content-Length: 0\r\n" } else { "" };
    s.write_all(format!("{} {} HTTP/1.0\r\nHost: localhost\r\n{}\r\n", method, path, body).as_bytes()).ok()?;
    let mut buf = Vec::new();
    s.read_to_end(&mut buf).ok()?;
    let head_end = buf.windows(4).position(|w| w == b"\r\n\r\n")?;
    let head = String::from_utf8_lossy(&buf[..head_end]).to_string();
    let code: u16 = head.split_whitespace().nth(1)?.parse().ok()?;
    let mut payload = buf[head_end + 4..].to_vec();
    if let Some(l) = head.lines().find_map(|l| l.to_ascii_lowercase().strip_prefix("content-length:").map(|x| x.trim().parse::<usize>().ok())).flatten() {
        if payload.len() < l {
            return None; // truncated
        }
        payload.truncate(l);
    }
    Some((code, payload))
}

/// The Explorer behind its real HTTP server (`CheckerBuilder::serve`), on the loopback interface.
/// Not simulated: real sockets, real threads, real time. Only the content of replies that did
/// arrive is judged (it is a function of the model); slowness and I/O problems are probes.
fn run_http(sc: &ExplorerScenario) -> ExOutcome {
    let g = &sc.graph;
    let rf = Reference::new(g);
    let r = rf.reachable();
    let mut v: Vec<Violation> = Vec::new();
    let mut c = Counters::default();
    let ws = walk_states(sc);
    let all_fps: BTreeMap<u64, u16> = (0..g.n as u16).map(|s| (fp(s), s)).collect();
    c.inc("http_runs");
    let done = |v: Vec<Violation>, c: Counters| ExOutcome { violations: v, counters: c, trace_hash: 0x4854_5450, steps: 0, clock: 0, visits: 1 };
    let port = match std::net::TcpListener::bind(("127.0.0.1", 0)).and_then(|l| l.local_addr()) {
        Ok(a) => a.port(),
        Err(_) => {
            c.inc("http_skipped_no_loopback");
            return done(v, c);
        }
    };
    let model = GModel::new(g.clone());
    let threads = sc.threads;
    // never returns: the server thread (and the on-demand workers) stay behind until the process exits
    std::thread::spawn(move || {
        let _ = catch_unwind(AssertUnwindSafe(|| model.checker().threads(threads).serve(("127.0.0.1", port))));
    });
    let mut up = false;
    for _ in 0..400 {
        if http(port, "GET", "/.status").is_some() {
            up = true;
            break;
        }
        std::thread::sleep(std::time::Duration::from_millis(25));
    }
    if !up {
        c.inc("http_skipped_server_not_up");
        return done(v, c);
    }
    let json = |b: &[u8]| serde_json::from_slice::<serde_json::Value>(b).ok();
    // routing: the UI files, unknown paths, wrong methods
    for (m, path, want) in [("GET", "/", 200u16), ("GET", "/app.js", 200), ("GET", "/app.css", 200), ("GET", "/nosuch", 404), ("GET", "/.statusx", 404), ("POST", "/.status", 404), ("GET", "/.runtocompletion", 404)] {
        match http(port, m, path) {
            Some((code, body)) => {
                c.inc("http_routing_replies");
                if code != want || (want == 200 && body.is_empty()) {
                    v.push(Violation::new("C19", "http-routing", format!("{} {} answered {} with {} bytes, expected {}", m, path, code, body.len(), want)));
                }
            }
            None => c.inc("http_no_reply"),
        }
    }
    // the states endpoint along the reference walk, and for sequences that denote no execution
    let mut paths: Vec<(String, Vec<u64>, bool)> = Vec::new();
    for len in 0..=ws.len() {
        let fps: Vec<u64> = ws[..len].iter().map(|s| fp(*s)).collect();
        let mut p = String::from("/.states");
        for f in &fps {
            p.push_str(&format!("/{}", f));
        }
        if len % 2 == 1 {
            p.push('/');
        }
        paths.push((p.clone(), fps.clone(), false));
        if len > 0 {
            let mut bad = fps.clone();
            *bad.last_mut().unwrap() ^= 0x5555;
            let mut bp = String::from("/.states");
            for f in &bad {
                bp.push_str(&format!("/{}", f));
            }
            paths.push((bp, bad, false));
            paths.push((format!("{}/notanumber", p.trim_end_matches('/')), fps, true));
        }
    }
    for (path, fps, garbage) in paths {
        let expect: Option<Vec<(u16, Option<u16>)>> = if garbage {
            None
        } else if fps.is_empty() {
            Some(g.inits.iter().map(|s| (u16::MAX, Some(*s))).collect())
        } else {
            denotes(g, &fps).map(|last| g.edges_at(last).iter().enumerate().map(|(a, t)| (a as u16, *t)).collect())
        };
        let Some((code, body)) = http(port, "GET", &path) else {
            c.inc("http_no_reply");
            continue;
        };
        c.inc("http_states_replies");
        match (&expect, code) {
            (None, 404) => c.inc("states_404"),
            (None, _) => v.push(Violation::new("C19", "states-404", format!("GET {} denotes no execution but the server answered {}", path, code))),
            (Some(_), 404) => v.push(Violation::new("C19", "states-404", format!("GET {} denotes an execution but the server answered 404", path))),
            (Some(exp), _) => {
                let mut asked = Vec::new();
                let ok = code == 200 && json(&body).map(|val| judge_states_reply(g, &fps, exp, &val, &mut asked)).unwrap_or(false);
                if !ok {
                    v.push(Violation::new("C19", "states-content", format!("GET {} ({}): expected actions/successors {:?}, server answered {}", path, code, exp, String::from_utf8_lossy(&body))));
                }
            }
        }
    }
    // run to completion, then the status endpoint
    match http(port, "POST", "/.runtocompletion") {
        Some((200, _)) => {
            let mut fin = None;
            for _ in 0..400 {
                if let Some((200, b)) = http(port, "GET", "/.status") {
                    if let Some(st) = json(&b) {
                        if st["done"].as_bool() == Some(true) {
                            fin = Some(st);
                            break;
                        }
                    }
                }
                std::thread::sleep(std::time::Duration::from_millis(25));
            }
            match fin {
                None => c.inc("http_not_done_in_time"),
                Some(st) => {
                    c.inc("http_completions_checked");
                    let mut cc = Counters::default();
                    judge_status_props(g, &rf, &all_fps, &st, &mut v, &mut cc);
                    c.merge(&cc);
                    let n_disc = st["properties"].as_array().map(|a| a.iter().filter(|p| p[2].is_string()).count()).unwrap_or(0);
                    if n_disc < g.props.len() && !g.props.is_empty() {
                        let uc = st["unique_state_count"].as_u64().unwrap_or(0) as usize;
                        if uc != r.len() {
                            v.push(Violation::new("C19", "status", format!("after run to completion the status endpoint reports {} unique states, {} are reachable", uc, r.len())));
                        }
                    }
                }
            }
        }
        Some((code, _)) => v.push(Violation::new("C19", "http-routing", format!("POST /.runtocompletion answered {}", code))),
        None => c.inc("http_no_reply"),
    }
    let mut seen = BTreeSet::new();
    v.retain(|x| seen.insert(x.class.clone()));
    done(v, c)
}

pub fn run_explorer(sc: &ExplorerScenario) -> ExOutcome {
    if sc.http {
        return run_http(sc);
    }
    let g = &sc.graph;
    let rf = Reference::new(g);
    let r = rf.reachable();
    let model = GModel::new(g.clone());
    let sched = Sched::new(sc.sched.clone());
    let visits: Shared<Vec<u16>> = Shared::new(Vec::new());
    let mut v: Vec<Violation> = Vec::new();
    let mut c = Counters::default();
    let ws = walk_states(sc);
    let all_fps: BTreeMap<u64, u16> = (0..g.n as u16).map(|s| (fp(s), s)).collect();
    sched.enter();
    let result = catch_unwind(AssertUnwindSafe(|| {
        let (their_visitor, snap) = verif_explorer::new_visitor::<GModel>();
        let vv = visits.clone();
        let mine = move |p: Path<u16, u16>| {
            let s = *p.last_state();
            vv.with(|l| l.push(s));
        };
        let checker = Arc::new(model.clone().checker().threads(sc.threads).visitor(Both(mine, their_visitor)).spawn_on_demand());
        let h = verif_explorer::handle(snap, checker.clone());
        // browser threads polling status
        for b in 0..sc.browsers {
            let h2 = h.clone();
            let _ = stateright::verif_hooks::std_shim::thread::Builder::new().name(format!("browser-{}", b)).spawn(move || {
                for _ in 0..3 {
                    let _ = verif_explorer::status(&h2);
                }
            });
        }
        let closure = |vis: &BTreeSet<u16>| -> BTreeSet<u16> {
            let mut gset: BTreeSet<u16> = g.inits.iter().cloned().filter(|i| g.in_boundary(*i)).collect();
            for s in vis {
                for (_, t) in rf.succ.get(s).into_iter().flatten() {
                    gset.insert(*t);
                }
            }
            gset
        };
        let visited_now = |visits: &Shared<Vec<u16>>| -> Vec<u16> { visits.with(|l| l.clone()) };
        let mut local_v: Vec<Violation> = Vec::new();
        let mut cc = Counters::default();
        for req in &sc.requests {
            sched.wait_idle();
            let before_list = visited_now(&visits);
            let before: BTreeSet<u16> = before_list.iter().cloned().collect();
            let pending: BTreeSet<u16> = closure(&before).difference(&before).cloned().collect();
            // states whose evaluation this request asks for
            let mut asked: Vec<u16> = Vec::new();
            match req {
                Req::Check(i) => {
                    let s = ws[(*i).min(ws.len() - 1)];
                    asked.push(s);
                    checker.check_fingerprint(NonZeroU64::new(fp(s)).unwrap());
                    cc.inc("requests_check_fingerprint");
                }
                Req::CheckBogus => {
                    checker.check_fingerprint(NonZeroU64::new(0xdead_beef_0000_0001).unwrap());
                    cc.inc("requests_check_bogus");
                }
                Req::Status => {
                    let lo = (checker.state_count(), checker.unique_state_count());
                    let st = verif_explorer::status(&h);
                    let hi = (checker.state_count(), checker.unique_state_count());
                    cc.inc("requests_status");
                    let sc_ = st["state_count"].as_u64().unwrap_or(u64::MAX) as usize;
                    let uc = st["unique_state_count"].as_u64().unwrap_or(u64::MAX) as usize;
                    if sc_ < lo.0 || sc_ > hi.0 || uc < lo.1 || uc > hi.1 {
                        local_v.push(Violation::new("C19", "status", format!("status reports state_count {} / unique {} while the checker reports {:?}..{:?}", sc_, uc, lo, hi)));
                    }
                    judge_status_props(g, &rf, &all_fps, &st, &mut local_v, &mut cc);
                }
                Req::States(len) | Req::StatesMutated(len, _) => {
                    let len = (*len).min(ws.len());
                    let mut fps: Vec<u64> = ws[..len].iter().map(|s| fp(*s)).collect();
                    let mut path = String::new();
                    let mut garbage = false;
                    if let Req::StatesMutated(_, how) = req {
                        match how {
                            0 => {
                                if let Some(l) = fps.last_mut() {
                                    *l ^= 0x5555;
                                } else {
                                    fps.push(12345);
                                }
                            }
                            1 => fps.reverse(),
                            2 => fps.insert(0, fp(sc.walk_init) ^ 1),
                            _ => garbage = true,
                        }
                    }
                    for f in &fps {
                        path.push_str(&format!("/{}", f));
                    }
                    if garbage {
                        path.push_str("/notanumber");
                    }
                    if fps.len() % 2 == 1 {
                        path.push('/'); // a trailing slash is accepted
                    }
                    cc.inc("requests_states");
                    let expect: Option<Vec<(u16, Option<u16>)>> = if garbage {
                        None
                    } else if fps.is_empty() {
                        Some(g.inits.iter().map(|s| (u16::MAX, Some(*s))).collect())
                    } else {
                        denotes(g, &fps).map(|last| g.edges_at(last).iter().enumerate().map(|(a, t)| (a as u16, *t)).collect())
                    };
                    let got = verif_explorer::states(&path, &h);
                    match (&expect, &got) {
                        (None, Err(_)) => cc.inc("states_404"),
                        (None, Ok(val)) => local_v.push(Violation::new("C19", "states-404", format!("path {:?} denotes no execution but the handler answered {}", path, val))),
                        (Some(_), Err(e)) => local_v.push(Violation::new("C19", "states-404", format!("path {:?} denotes an execution but the handler answered 404: {}", path, e))),
                        (Some(exp), Ok(val)) => {
                            let ok = judge_states_reply(g, &fps, exp, val, &mut asked);
                            if !ok {
                                local_v.push(Violation::new("C19", "states-content", format!("path {:?}: expected actions/successors {:?}, handler answered {}", path, exp, val)));
                            }
                        }
                    }
                }
            }
            sched.wait_idle();
            let after_list = visited_now(&visits);
            if std::env::var("VERIF_DEBUG").is_ok() {
                eprintln!("req {:?}: before {:?} pending {:?} asked {:?} after {:?}", req, before_list, pending, asked, after_list);
            }
            let after: BTreeSet<u16> = after_list.iter().cloned().collect();
            // requested pending states are evaluated; other requests change nothing
            // once every property has a discovery the checker is done and may drop pending work
            let all_discovered = g.props.is_empty() || checker.discoveries().len() == g.props.len();
            let valid: Vec<u16> = if all_discovered { vec![] } else { asked.iter().cloned().filter(|s| pending.contains(s)).collect() };
            if valid.is_empty() {
                // Nothing is demanded: a request queued earlier at a then-idle worker may legitimately
                // be served later, so "nothing changes" is only a probe.
                if after_list.len() != before_list.len() {
                    cc.inc("probe_states_evaluated_without_a_current_request");
                }
            } else {
                cc.inc("probe_request_for_pending_state");
                for s in &valid {
                    if !after.contains(s) {
                        local_v.push(Violation::new("C19", "ondemand-request", format!("request {:?}: pending state {} was not evaluated", req, s)));
                    }
                }
                let want_unique = closure(&after).len();
                if checker.unique_state_count() != want_unique {
                    local_v.push(Violation::new("C19", "ondemand-request", format!("after request {:?}: {} states generated, but the evaluated states and their successors are {}", req, checker.unique_state_count(), want_unique)));
                }
            }
            if after_list.len() != after.len() || !after.is_subset(&r) {
                local_v.push(Violation::new("C19", "ondemand-request", format!("evaluated states {:?} contain repeats or unreachable states", after_list)));
            }
            if !local_v.is_empty() {
                break;
            }
        }
        // run to completion: finishes like BFS
        if local_v.is_empty() {
            let code = verif_explorer::run_to_completion(&h);
            if code != 200 {
                local_v.push(Violation::new("C19", "ondemand-completion", format!("run-to-completion answered {}", code)));
            }
            sched.wait_idle();
            let done = checker.is_done();
            let fin: BTreeSet<u16> = visited_now(&visits).into_iter().collect();
            let disc: BTreeSet<String> = checker.discoveries().keys().map(|k| k.to_string()).collect();
            let all_discovered = disc.len() == g.props.len();
            if !done {
                local_v.push(Violation::new("C19", "ondemand-completion", "after run-to-completion and quiescence is_done() is false".to_string()));
            } else if !all_discovered && !g.props.is_empty() {
                cc.inc("completions_checked");
                if fin != r {
                    let missing: Vec<_> = r.difference(&fin).collect();
                    local_v.push(Violation::new("C19", "ondemand-completion", format!("run to completion evaluated {} of {} reachable states (missing {:?})", fin.len(), r.len(), missing)));
                }
                for (i, p) in g.props.iter().enumerate() {
                    let exists = match p.kind {
                        Kind::Always => r.iter().any(|s| !g.bit(i, *s)),
                        Kind::Sometimes => r.iter().any(|s| g.bit(i, *s)),
                        Kind::Eventually => {
                            // exact on forest-shaped models, never a false alarm elsewhere
                            let ex = rf.eventually_counterexample_exists(g, i);
                            if rf.is_forest {
                                ex
                            } else if disc.contains(NAMES[i]) && !ex {
                                false
                            } else {
                                continue;
                            }
                        }
                    };
                    if exists != disc.contains(NAMES[i]) {
                        local_v.push(Violation::new("C19", "ondemand-completion", format!("after run to completion {} {:?}: witness exists = {}, reported = {}", NAMES[i], p.kind, exists, !exists)));
                    }
                }
            }
        }
        drop(h);
        (local_v, cc)
    }));
    match result {
        Ok((lv, cc)) => {
            v.extend(lv);
            c.merge(&cc);
        }
        Err(e) => {
            if !e.is::<SimShutdown>() {
                let msg = e.downcast_ref::<String>().cloned().or_else(|| e.downcast_ref::<&str>().map(|s| s.to_string())).unwrap_or_default();
                v.push(Violation::new("C19", "handler-panic", format!("a handler panicked: {}", msg.lines().find(|l| !l.trim().is_empty()).unwrap_or(""))));
            }
        }
    }
    let aborted = sched.aborted();
    let _ = sched.leave(true);
    match aborted {
        Some(AbortReason::Budget) => v.push(Violation::new("C19", "ondemand-completion", "step budget exhausted".to_string())),
        Some(AbortReason::Deadlock(d)) => v.push(Violation::new("C19", "ondemand-completion", format!("deadlock: {}", d))),
        _ => {}
    }
    // Path API against the reference walk (pure)
    path_api(sc, &ws, &mut v, &mut c);
    let stats = sched.stats();
    let mut seen = BTreeSet::new();
    v.retain(|x| seen.insert(x.class.clone()));
    let nvis = visits.with(|l| l.len());
    ExOutcome { violations: v, counters: c, trace_hash: sched.trace_hash(), steps: stats.steps, clock: stats.final_clock_ns, visits: nvis }
}

fn path_api(sc: &ExplorerScenario, ws: &[u16], v: &mut Vec<Violation>, c: &mut Counters) {
    let g = &sc.graph;
    let model = GModel::new(g.clone());
    let acts: Vec<u16> = sc.walk_actions[..ws.len() - 1].to_vec();
    let fps: Vec<u64> = ws.iter().map(|s| fp(*s)).collect();
    c.inc("path_api_walks");
    // from_actions
    match Path::from_actions(&model, sc.walk_init, acts.iter()) {
        None => v.push(Violation::new("C19", "path-api:from_actions", format!("from_actions rejects the execution {:?} via {:?}", ws, acts))),
        Some(p) => {
            if p.last_state() != ws.last().unwrap() {
                v.push(Violation::new("C19", "path-api:last_state", format!("last_state {} != {}", p.last_state(), ws.last().unwrap())));
            }
            let want_enc = fps.iter().map(|f| f.to_string()).collect::<Vec<_>>().join("/");
            if p.encode() != want_enc {
                v.push(Violation::new("C19", "path-api:encode", format!("encode() = {:?}, expected {:?}", p.encode(), want_enc)));
            }
            if p.clone().into_states() != ws {
                v.push(Violation::new("C19", "path-api:into_states", format!("into_states {:?} != {:?}", p.clone().into_states(), ws)));
            }
            if p.clone().into_actions() != acts {
                v.push(Violation::new("C19", "path-api:into_actions", format!("into_actions {:?} != {:?}", p.clone().into_actions(), acts)));
            }
            let vec = path_to_vec(p);
            let want: Vec<(u16, Option<u16>)> = ws.iter().enumerate().map(|(i, s)| (*s, acts.get(i).cloned())).collect();
            if vec != want {
                v.push(Violation::new("C19", "path-api:into_vec", format!("into_vec {:?} != {:?}", vec, want)));
            }
        }
    }
    // from an invalid action list / a non-initial state
    let mut bad = acts.clone();
    let last = *ws.last().unwrap();
    let n_act = g.edges_at(last).len() as u16;
    bad.push(n_act + 3);
    if Path::from_actions(&model, sc.walk_init, bad.iter()).is_some() {
        v.push(Violation::new("C19", "path-api:from_actions", format!("from_actions accepts the non-existent action {} at state {}", n_act + 3, last)));
    }
    if let Some(ig) = g.edges_at(last).iter().position(|e| e.is_none()) {
        let mut bad = acts.clone();
        bad.push(ig as u16);
        if Path::from_actions(&model, sc.walk_init, bad.iter()).is_some() {
            v.push(Violation::new("C19", "path-api:from_actions", format!("from_actions follows the ignored action {} at state {}", ig, last)));
        }
    }
    if let Some(non_init) = (0..g.n as u16).find(|s| !g.inits.contains(s)) {
        if Path::from_actions(&model, non_init, std::iter::empty()).is_some() {
            v.push(Violation::new("C19", "path-api:from_actions", format!("from_actions accepts the non-initial state {}", non_init)));
        }
    }
    // from fingerprints / final_state
    let p = Path::<u16, u16>::verif_from_fingerprints(&model, &fps);
    if p.clone().into_states() != ws {
        v.push(Violation::new("C19", "path-api:from_fingerprints", format!("from_fingerprints gives states {:?}, expected {:?}", p.clone().into_states(), ws)));
    }
    // its actions must lead along the same states
    let pv = path_to_vec(p);
    for (i, (s, a)) in pv.iter().enumerate() {
        if let Some(a) = a {
            if g.edges_at(*s).get(*a as usize).cloned().flatten() != pv.get(i + 1).map(|x| x.0) {
                v.push(Violation::new("C19", "path-api:from_fingerprints", format!("from_fingerprints labels the step {} -> {:?} with action {}", s, pv.get(i + 1).map(|x| x.0), a)));
            }
        }
    }
    if Path::<u16, u16>::verif_final_state(&model, &fps) != Some(last) {
        v.push(Violation::new("C19", "path-api:final_state", format!("final_state of {:?} is {:?}, expected {}", ws, Path::<u16, u16>::verif_final_state(&model, &fps), last)));
    }
    let mut badfps = fps.clone();
    *badfps.last_mut().unwrap() ^= 0x77;
    if denotes(g, &badfps).is_none() && Path::<u16, u16>::verif_final_state(&model, &badfps).is_some() {
        v.push(Violation::new("C19", "path-api:final_state", "final_state accepts a fingerprint sequence that denotes no execution".to_string()));
    }
    // final_state must not follow ignored actions or invent edges: a non-adjacent pair
    if ws.len() >= 3 {
        let skip = vec![fps[0], fps[2]];
        let expect = denotes(g, &skip);
        let got = Path::<u16, u16>::verif_final_state(&model, &skip);
        if got != expect {
            v.push(Violation::new("C19", "path-api:final_state", format!("final_state of the non-adjacent pair {:?} is {:?}, expected {:?}", [ws[0], ws[2]], got, expect)));
        }
    }
    let _ = Finish::All;
}

pub fn run_case(seed: u64) -> (crate::common::RunReport, serde_json::Value) {
    let sc = gen_explorer(seed);
    let out = run_explorer(&sc);
    (report(out), serde_json::to_value(&sc).unwrap())
}
fn report(out: ExOutcome) -> crate::common::RunReport {
    crate::common::RunReport { violations: out.violations, counters: out.counters, signature: out.trace_hash, nontrivial: out.visits >= 1 || out.steps >= 30, sim_time_ns: out.clock, steps: out.steps, case_hashes: vec![] }
}
pub fn replay(scenario: &serde_json::Value) -> Result<crate::common::RunReport, String> {
    let sc: ExplorerScenario = serde_json::from_value(scenario.clone()).map_err(|e| e.to_string())?;
    Ok(report(run_explorer(&sc)))
}
pub fn summary(scenario: &serde_json::Value) -> serde_json::Value {
    serde_json::json!({"states": scenario["graph"]["n"], "threads": scenario["threads"], "walk_init": scenario["walk_init"], "walk_actions": scenario["walk_actions"],
        "requests": scenario["requests"], "browsers": scenario["browsers"], "block_size": scenario["sched"]["block_size"], "policy": scenario["sched"]["policy"]})
}
pub fn shrink_candidates(scenario: &serde_json::Value) -> Vec<serde_json::Value> {
    let Ok(sc) = serde_json::from_value::<ExplorerScenario>(scenario.clone()) else { return vec![] };
    let mut out = Vec::new();
    for i in 0..sc.requests.len() {
        let mut s = sc.clone();
        s.requests.remove(i);
        out.push(s);
    }
    if sc.browsers > 0 {
        let mut s = sc.clone();
        s.browsers = 0;
        out.push(s);
    }
    if sc.threads > 1 {
        let mut s = sc.clone();
        s.threads = 1;
        out.push(s);
    }
    if !sc.walk_actions.is_empty() {
        let mut s = sc.clone();
        s.walk_actions.pop();
        out.push(s);
    }
    for i in 0..sc.graph.props.len() {
        if sc.graph.props.len() > 1 {
            let mut s = sc.clone();
            s.graph.props.remove(i);
            out.push(s);
        }
    }
    out.into_iter().map(|s| serde_json::to_value(&s).unwrap()).collect()
}
