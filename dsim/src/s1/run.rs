//! Executes one S1 scenario: the real checker, under the scheduler, on a generated graph model.

use super::graph::*;
use crate::sched::{AbortReason, Sched, SchedSpec, Shared, SimShutdown, Stats};
use serde::{Deserialize, Serialize};
use stateright::verif_hooks::Hooks;
use stateright::{Checker, Chooser, HasDiscoveries, Model, Path, UniformChooser};
use std::collections::{BTreeMap, BTreeSet};
use std::panic::{catch_unwind, AssertUnwindSafe};
use std::time::Duration;

#[derive(Clone, Copy, Debug, Serialize, Deserialize, PartialEq, Eq)]
pub enum Strategy {
    Bfs,
    Dfs,
    OnDemand,
    Simulation,
}

#[derive(Clone, Debug, Serialize, Deserialize, PartialEq)]
pub enum Finish {
    All,
    Any,
    AnyFailures,
    AllFailures,
    AllOf(Vec<String>),
    AnyOf(Vec<String>),
}

fn static_name(s: &str) -> &'static str {
    // names outside the pool are interned from a fixed list so they stay 'static
    const EXTRA: [&str; 3] = ["nosuch", "zz", ""];
    NAMES.iter().chain(EXTRA.iter()).find(|n| **n == s).copied().unwrap_or("nosuch")
}

impl Finish {
    pub fn to_real(&self) -> HasDiscoveries {
        match self {
            Finish::All => HasDiscoveries::All,
            Finish::Any => HasDiscoveries::Any,
            Finish::AnyFailures => HasDiscoveries::AnyFailures,
            Finish::AllFailures => HasDiscoveries::AllFailures,
            Finish::AllOf(v) => HasDiscoveries::AllOf(v.iter().map(|s| static_name(s)).collect()),
            Finish::AnyOf(v) => HasDiscoveries::AnyOf(v.iter().map(|s| static_name(s)).collect()),
        }
    }
    /// Reference meaning of each variant, written from the variant names.
    pub fn reference_matches(&self, discovered: &BTreeSet<String>, g: &Graph) -> bool {
        let failures: Vec<String> = g
            .props
            .iter()
            .enumerate()
            .filter(|(_, p)| p.kind != Kind::Sometimes)
            .map(|(i, _)| NAMES[i].to_string())
            .collect();
        match self {
            Finish::All => (0..g.props.len()).all(|i| discovered.contains(NAMES[i])),
            Finish::Any => !discovered.is_empty(),
            Finish::AnyFailures => failures.iter().any(|f| discovered.contains(f)),
            Finish::AllFailures => failures.iter().all(|f| discovered.contains(f)),
            Finish::AllOf(v) => v.iter().all(|n| discovered.contains(static_name(n))),
            Finish::AnyOf(v) => v.iter().any(|n| discovered.contains(static_name(n))),
        }
    }
}

#[derive(Clone, Copy, Debug, Serialize, Deserialize, PartialEq)]
pub enum ChooserKind {
    Uniform,
    /// Prefers actions leading out of the boundary, then self loops, then the highest index.
    Adversarial,
}

#[derive(Clone, Debug, Serialize, Deserialize)]
pub struct S1Scenario {
    pub graph: Graph,
    pub strategy: Strategy,
    pub threads: usize,
    pub finish: Finish,
    pub target_states: Option<usize>,
    pub target_depth: Option<usize>,
    pub timeout_ns: Option<u64>,
    pub visitor: bool,
    pub sim_seed: u64,
    pub chooser: ChooserKind,
    /// Number of times the harness thread calls `discoveries()`/`is_done()` while workers run.
    pub polls: u8,
    /// Drop the checker handle instead of joining it (the workers must still stop).
    #[serde(default)]
    pub drop_without_join: bool,
    /// on-demand only: states whose evaluation is requested (one at a time, waiting for quiescence)
    /// before the checker is told to run to completion
    #[serde(default)]
    pub pre_requests: Vec<u16>,
    /// 0 = `join()`, 1 = `join_and_report(reporter)`, 2 = `report(reporter)` followed by `join()`
    #[serde(default)]
    pub join_mode: u8,
    /// reporting period of the harness reporter (virtual ms)
    #[serde(default)]
    pub report_delay_ms: u16,
    /// virtual time that passes between configuring the builder (`.timeout(d)`) and spawning the
    /// checker: the timeout is a budget for the check, counted from the spawn
    #[serde(default)]
    pub pre_spawn_delay_ns: u64,
    pub sched: SchedSpec,
}

/// A `Reporter` that records what it is told (the report channel of `report`/`join_and_report`).
#[derive(Default)]
pub struct HReporter {
    pub delay_ms: u16,
    pub calls: usize,
    pub done_calls: usize,
    pub calls_after_done: usize,
    pub last_done: Option<(usize, usize, usize)>,
    /// name -> (classification, path)
    pub discoveries: Option<BTreeMap<String, (String, Vec<(u16, Option<u16>)>)>>,
}
impl stateright::report::Reporter<GModel> for HReporter {
    fn report_checking(&mut self, d: stateright::report::ReportData) {
        self.calls += 1;
        if self.done_calls > 0 {
            self.calls_after_done += 1;
        }
        if d.done {
            self.done_calls += 1;
            self.last_done = Some((d.total_states, d.unique_states, d.max_depth));
        }
    }
    fn report_discoveries(&mut self, discoveries: BTreeMap<&'static str, stateright::report::ReportDiscovery<GModel>>) {
        self.discoveries = Some(discoveries.into_iter().map(|(k, v)| (k.to_string(), (v.classification.to_string(), path_to_vec(v.path)))).collect());
    }
    fn delay(&self) -> Duration {
        Duration::from_millis(self.delay_ms.max(1) as u64)
    }
}
#[derive(Clone, Debug, Serialize, Default)]
pub struct ReportObs {
    pub calls: usize,
    pub done_calls: usize,
    pub calls_after_done: usize,
    pub last_done: Option<(usize, usize, usize)>,
    pub discoveries: Option<BTreeMap<String, (String, Vec<(u16, Option<u16>)>)>>,
}
thread_local!(static REPORT_OBS: std::cell::RefCell<Option<ReportObs>> = const { std::cell::RefCell::new(None) });

#[derive(Clone, Debug, Serialize)]
pub struct Visit {
    pub state: u16,
    pub path: Vec<(u16, Option<u16>)>,
    pub step: u64,
    pub t_ns: u64,
    pub thread: usize,
}

#[derive(Clone, Debug, Serialize, PartialEq)]
pub enum JoinOutcome {
    Returned,
    Dropped,
    Panicked(String),
    Aborted,
}

#[derive(Clone, Debug, Serialize)]
pub struct Obs {
    pub visits: Vec<Visit>,
    pub join: JoinOutcome,
    /// Discoveries after join, or the panic message of `discoveries()`.
    pub discoveries: Result<BTreeMap<String, Vec<(u16, Option<u16>)>>, String>,
    pub state_count: usize,
    pub unique_state_count: usize,
    pub max_depth: usize,
    pub is_done: bool,
    pub assert_properties_ok: Option<bool>,
    pub abort: Option<AbortReason>,
    pub leaked: Option<String>,
    pub stats: Stats,
    pub trace_hash: u64,
    pub join_returned_at_wall_ns: Option<u64>,
    pub join_returned_at_step: Option<u64>,
    pub timeout_deadline_wall_ns: Option<u64>,
    pub spawn_panic: Option<String>,
    pub panic_fired: bool,
    /// assert_properties() returned normally at a moment when is_done() (read afterwards) was false
    pub assert_ok_before_done: bool,
    /// states generated as counted by the model (in-boundary initial states + in-boundary successors, with repeats)
    pub model_generated: usize,
    /// what the reporter was told (join modes 1 and 2)
    pub report: Option<ReportObs>,
    /// discovery(name) / assert_any_discovery / assert_no_discovery disagree with discoveries()
    pub helper_mismatch: Option<String>,
}

#[derive(Clone)]
pub struct AdvChooser;
pub struct AdvState(crate::rng::Rng);
impl Chooser<GModel> for AdvChooser {
    type State = AdvState;
    fn new_state(&self, seed: u64) -> AdvState {
        AdvState(crate::rng::Rng::new(seed))
    }
    fn choose_initial_state(&self, st: &mut AdvState, inits: &[u16]) -> usize {
        st.0.usize_below(inits.len())
    }
    fn choose_action(&self, st: &mut AdvState, _cur: &u16, actions: &[u16]) -> usize {
        // cannot see the model here; vary between last, first and random
        match st.0.below(3) {
            0 => actions.len() - 1,
            1 => 0,
            _ => st.0.usize_below(actions.len()),
        }
    }
}

fn panic_msg(e: &Box<dyn std::any::Any + Send>) -> String {
    if e.is::<SimShutdown>() {
        "SimShutdown".into()
    } else if let Some(s) = e.downcast_ref::<String>() {
        s.clone()
    } else if let Some(s) = e.downcast_ref::<&str>() {
        s.to_string()
    } else {
        "<non-string panic>".into()
    }
}

pub fn path_to_vec(p: Path<u16, u16>) -> Vec<(u16, Option<u16>)> {
    p.into_vec()
}

struct Finals {
    discoveries: Result<BTreeMap<String, Vec<(u16, Option<u16>)>>, String>,
    state_count: usize,
    unique_state_count: usize,
    max_depth: usize,
    is_done: bool,
    assert_ok: Option<bool>,
}

fn finals<C: Checker<GModel>>(c: &C, want_assert: bool) -> Finals {
    let discoveries = catch_unwind(AssertUnwindSafe(|| {
        c.discoveries()
            .into_iter()
            .map(|(k, p)| (k.to_string(), path_to_vec(p)))
            .collect::<BTreeMap<_, _>>()
    }))
    .map_err(|e| {
        if e.is::<SimShutdown>() {
            std::panic::resume_unwind(e)
        }
        panic_msg(&e)
    });
    let is_done = c.is_done();
    // the per-property helpers: discovery(name), assert_any_discovery(name), assert_no_discovery(name)
    if want_assert {
        if let Ok(d) = &discoveries {
            let props = c.model().properties();
            for p in props {
                let quiet = |f: &dyn Fn()| -> bool {
                    match catch_unwind(AssertUnwindSafe(f)) {
                        Ok(()) => true,
                        Err(e) => {
                            if e.is::<SimShutdown>() {
                                std::panic::resume_unwind(e)
                            }
                            false
                        }
                    }
                };
                let found = d.contains_key(p.name);
                let one = c.discovery(p.name).map(path_to_vec);
                let any_ok = quiet(&|| {
                    let _ = c.assert_any_discovery(p.name);
                });
                let none_ok = quiet(&|| c.assert_no_discovery(p.name));
                // with a discovery: any succeeds, none panics; without one: any panics, and none
                // succeeds exactly when the check is done
                let consistent = one.as_ref() == d.get(p.name) && any_ok == found && if found { !none_ok } else { none_ok == is_done };
                if !consistent {
                    HELPER_MISMATCH.with(|m| *m.borrow_mut() = Some(format!("{}: discoveries() has it = {}, discovery() = {:?}, assert_any_discovery ok = {}, assert_no_discovery ok = {}, is_done = {}", p.name, found, one.is_some(), any_ok, none_ok, is_done)));
                }
            }
        }
    }
    let assert_ok = if want_assert {
        match catch_unwind(AssertUnwindSafe(|| c.assert_properties())) {
            Ok(()) => Some(true),
            Err(e) => {
                if e.is::<SimShutdown>() {
                    std::panic::resume_unwind(e)
                }
                Some(false)
            }
        }
    } else {
        None
    };
    Finals {
        discoveries,
        state_count: c.state_count(),
        unique_state_count: c.unique_state_count(),
        max_depth: c.max_depth(),
        is_done,
        assert_ok,
    }
}

/// Drives a spawned checker: optional polls, join, final observations.
fn early_assert<C: Checker<GModel>>(checker: &C, flag: &std::cell::Cell<bool>) {
    // as a user would do on a checker that is still running: the verdict must not be positive yet
    let ok = catch_unwind(AssertUnwindSafe(|| checker.assert_properties()));
    match ok {
        Ok(()) => {
            if !checker.is_done() {
                flag.set(true);
            }
        }
        Err(e) => {
            if e.is::<SimShutdown>() {
                std::panic::resume_unwind(e)
            }
        }
    }
}

thread_local!(static HELPER_MISMATCH: std::cell::RefCell<Option<String>> = const { std::cell::RefCell::new(None) });
thread_local!(static EARLY_ASSERT: std::cell::Cell<bool> = const { std::cell::Cell::new(false) });

fn drive<C: Checker<GModel> + Send + Sync>(
    sc: &S1Scenario,
    sched: &Sched,
    checker: C,
) -> (JoinOutcome, Option<Finals>, Option<(u64, u64)>) {
    EARLY_ASSERT.with(|f| f.set(false));
    HELPER_MISMATCH.with(|m| *m.borrow_mut() = None);
    if sc.polls > 0 && sc.graph.panic.is_none() {
        EARLY_ASSERT.with(|f| early_assert(&checker, f));
    }
    if sc.strategy == Strategy::OnDemand {
        for st in &sc.pre_requests {
            if let Some(fp) = std::num::NonZeroU64::new(stateright::verif_fingerprint(st)) {
                checker.check_fingerprint(fp);
                sched.wait_idle();
            }
        }
        checker.run_to_completion();
    }
    for _ in 0..sc.polls {
        let k = sched.user_below(6);
        for _ in 0..k {
            sched.harness_yield();
        }
        // as `report()` would do; results of mid-run polls are not judged
        let _ = catch_unwind(AssertUnwindSafe(|| {
            let _ = checker.is_done();
            let _ = checker.state_count();
            let _ = checker.unique_state_count();
            let _ = checker.discoveries();
        }))
        .map_err(|e| {
            if e.is::<SimShutdown>() {
                std::panic::resume_unwind(e)
            }
        });
    }
    if sc.drop_without_join {
        drop(checker);
        return (JoinOutcome::Dropped, None, None);
    }
    // join consumes the checker; on a panic inside join the checker is lost
    REPORT_OBS.with(|r| *r.borrow_mut() = None);
    let mode = sc.join_mode;
    let delay_ms = sc.report_delay_ms;
    let joined = catch_unwind(AssertUnwindSafe(move || {
        if mode == 0 {
            return checker.join();
        }
        let mut rep = HReporter { delay_ms, ..Default::default() };
        let r = catch_unwind(AssertUnwindSafe(|| if mode == 1 { checker.join_and_report(&mut rep) } else { checker.report(&mut rep).join() }));
        REPORT_OBS.with(|o| *o.borrow_mut() = Some(ReportObs { calls: rep.calls, done_calls: rep.done_calls, calls_after_done: rep.calls_after_done, last_done: rep.last_done, discoveries: rep.discoveries.take() }));
        match r {
            Ok(c) => c,
            Err(e) => std::panic::resume_unwind(e),
        }
    }));
    match joined {
        Ok(c) => {
            let at = (sched.wall_ns(), sched.steps());
            let f = finals(&c, true);
            drop(c);
            (JoinOutcome::Returned, Some(f), Some(at))
        }
        Err(e) => {
            if e.is::<SimShutdown>() {
                (JoinOutcome::Aborted, None, None)
            } else {
                (JoinOutcome::Panicked(panic_msg(&e)), None, None)
            }
        }
    }
}

pub fn run_s1(sc: &S1Scenario) -> Obs {
    let model = GModel::new(sc.graph.clone());
    let sched = Sched::new(sc.sched.clone());
    let visits: Shared<Vec<Visit>> = Shared::new(Vec::new());
    sched.enter();
    let timeout_deadline_cell = std::cell::Cell::new(sc.timeout_ns.map(|t| sched.wall_ns() + t));
    let result = catch_unwind(AssertUnwindSafe(|| {
        let mut b = model.clone().checker().threads(sc.threads).finish_when(sc.finish.to_real());
        if let Some(t) = sc.target_states {
            b = b.target_state_count(t);
        }
        if let Some(d) = sc.target_depth {
            b = b.target_max_depth(d);
        }
        if let Some(t) = sc.timeout_ns {
            b = b.timeout(Duration::from_nanos(t));
        }
        if sc.visitor {
            let v = visits.clone();
            let s2 = sched.clone();
            let m2 = model.clone();
            b = b.visitor(move |p: Path<u16, u16>| {
                let state = *p.last_state();
                m2.maybe_panic(PanicSite::Visitor(state));
                let path = path_to_vec(p);
                let step = s2.steps();
                let t_ns = s2.clock_ns();
                let thread = Sched::current_tid().unwrap_or(usize::MAX);
                v.with(|v| v.push(Visit { state, path, step, t_ns, thread }));
            });
        }
        if sc.pre_spawn_delay_ns > 0 {
            sched.sleep(Duration::from_nanos(sc.pre_spawn_delay_ns));
        }
        timeout_deadline_cell.set(sc.timeout_ns.map(|t| sched.wall_ns() + t));
        match sc.strategy {
            Strategy::Bfs => drive(sc, &sched, b.spawn_bfs()),
            Strategy::Dfs => drive(sc, &sched, b.spawn_dfs()),
            Strategy::OnDemand => drive(sc, &sched, b.spawn_on_demand()),
            Strategy::Simulation => match sc.chooser {
                ChooserKind::Uniform => drive(sc, &sched, b.spawn_simulation(sc.sim_seed, UniformChooser)),
                ChooserKind::Adversarial => drive(sc, &sched, b.spawn_simulation(sc.sim_seed, AdvChooser)),
            },
        }
    }));
    let (join, fin, at, spawn_panic) = match result {
        Ok((j, f, at)) => (j, f, at, None),
        Err(e) => {
            if e.is::<SimShutdown>() {
                (JoinOutcome::Aborted, None, None, None)
            } else {
                (JoinOutcome::Panicked(panic_msg(&e)), None, None, Some(panic_msg(&e)))
            }
        }
    };
    let abort_before_leave = sched.aborted();
    // threads that never end by themselves (none are expected in S1) are aborted only if the run
    // was already aborted
    let leaked = sched.leave(abort_before_leave.is_some()).err();
    let abort = sched.aborted().filter(|a| *a != AbortReason::Requested || abort_before_leave.is_some());
    let fin = fin.unwrap_or(Finals {
        discoveries: Err("no final observations".into()),
        state_count: 0,
        unique_state_count: 0,
        max_depth: 0,
        is_done: false,
        assert_ok: None,
    });
    Obs {
        visits: visits.with(|v| std::mem::take(v)),
        join,
        discoveries: fin.discoveries,
        state_count: fin.state_count,
        unique_state_count: fin.unique_state_count,
        max_depth: fin.max_depth,
        is_done: fin.is_done,
        assert_properties_ok: fin.assert_ok,
        abort,
        leaked,
        stats: sched.stats(),
        trace_hash: sched.trace_hash(),
        join_returned_at_wall_ns: at.map(|a| a.0),
        join_returned_at_step: at.map(|a| a.1),
        timeout_deadline_wall_ns: timeout_deadline_cell.get(),
        spawn_panic,
        assert_ok_before_done: EARLY_ASSERT.with(|f| f.get()),
        model_generated: model.generated.load(std::sync::atomic::Ordering::Relaxed),
        report: REPORT_OBS.with(|r| r.borrow_mut().take()),
        helper_mismatch: HELPER_MISMATCH.with(|m| m.borrow_mut().take()),
        panic_fired: sc.graph.panic.is_some() && !model.panic_armed.load(std::sync::atomic::Ordering::SeqCst),
    }
}
