//! S1 — the checker as a concurrent system.

pub mod explorer;
pub mod gen;
pub mod graph;
pub mod market;
pub mod oracle;
pub mod run;
pub mod symmetry;

use crate::common::{Counters, RunReport, Violation};
use graph::*;
use run::*;
use serde_json::Value;
use std::collections::BTreeSet;

pub const PROPS: [&str; 7] = ["C01", "C02", "C03", "C05", "C11", "C12", "C13"];

fn verdict_names(sc: &S1Scenario, obs: &Obs) -> BTreeSet<String> {
    let mut out = BTreeSet::new();
    if let Ok(d) = &obs.discoveries {
        for (i, p) in sc.graph.props.iter().enumerate() {
            if p.kind != Kind::Eventually && d.contains_key(NAMES[i]) {
                out.insert(NAMES[i].to_string());
            }
        }
    }
    out
}

fn visited_set(obs: &Obs) -> BTreeSet<u16> {
    obs.visits.iter().map(|v| v.state).collect()
}

/// First trace shown to the visitor by a simulation run: the maximal prefix of visits in which
/// each path extends the previous one by one state.
fn first_trace(obs: &Obs) -> Vec<u16> {
    let mut out = Vec::new();
    for (i, v) in obs.visits.iter().enumerate() {
        if v.path.len() != i + 1 {
            break;
        }
        out.push(v.state);
    }
    out
}

/// Runs a scenario (plus the companion runs its focus property needs) and judges it.
pub fn execute(focus: &str, sc: &S1Scenario) -> (Vec<Violation>, Counters, Obs) {
    let obs = run_s1(sc);
    let j = oracle::judge(sc, &obs);
    let mut v = j.violations;
    let mut c = j.counters;

    // C05: same states and verdicts as the single-threaded check
    if focus == "C05" && j.completed_exhaustive && sc.threads > 1 && sc.visitor {
        let mut one = sc.clone();
        one.threads = 1;
        let o1 = run_s1(&one);
        if oracle::completed_exhaustive(&one, &o1) {
            c.inc("single_thread_comparisons");
            let (a, b) = (visited_set(&obs), visited_set(&o1));
            if a != b {
                let diff: Vec<_> = a.symmetric_difference(&b).cloned().collect();
                v.push(Violation::new("C05", "schedule-dependent-set", format!("evaluated states differ from the single-threaded run: {:?}", diff)));
            }
            let (a, b) = (verdict_names(sc, &obs), verdict_names(&one, &o1));
            if a != b {
                v.push(Violation::new("C05", "schedule-dependent-verdict", format!("verdicts {:?} vs single-threaded {:?}", a, b)));
            }
        }
    }
    // C12: an unexpired timeout changes nothing
    if focus == "C12" && j.completed_exhaustive_modulo_timeout && sc.timeout_ns.map(|t| t >= 3_000_000_000_000).unwrap_or(false) {
        let mut nt = sc.clone();
        nt.timeout_ns = None;
        let o2 = run_s1(&nt);
        if oracle::completed_exhaustive(&nt, &o2) && sc.visitor {
            c.inc("no_timeout_comparisons");
            if visited_set(&obs) != visited_set(&o2) || verdict_names(sc, &obs) != verdict_names(&nt, &o2) || obs.unique_state_count != o2.unique_state_count {
                v.push(Violation::new("C12", "results-changed", "an unexpired timeout changed the evaluated states or verdicts".to_string()));
            }
        }
    }
    // C12: single-threaded simulation replays its first trace for a given seed and chooser
    if focus == "C12" && sc.strategy == Strategy::Simulation && sc.threads == 1 && sc.visitor && sc.graph.panic.is_none() {
        let mut again = sc.clone();
        again.sched.seed = sc.sched.seed.wrapping_mul(0x9E37_79B9_7F4A_7C15).wrapping_add(1);
        again.sched.policy = crate::sched::Policy::Random { stick_pct: 50 };
        again.polls = (sc.polls + 1) % 3;
        let o3 = run_s1(&again);
        c.inc("seed_replay_comparisons");
        let (a, b) = (first_trace(&obs), first_trace(&o3));
        // a timeout may cut a trace short (or prevent it): then one must be a prefix of the other
        let compatible = if sc.timeout_ns.is_some() {
            let n = a.len().min(b.len());
            a[..n] == b[..n]
        } else {
            a == b
        };
        if !compatible {
            v.push(Violation::new("C12", "seed-replay", format!("first trace with seed {}: {:?} vs {:?}", sc.sim_seed, a, b)));
        }
    }
    (v, c, obs)
}

pub fn run_case(focus: &str, seed: u64) -> (RunReport, Value) {
    let sc = gen::gen_s1(focus, seed);
    let (v, c, obs) = execute(focus, &sc);
    let nontrivial = obs.stats.steps >= 30 && !obs.visits.is_empty() || obs.stats.switches > 2;
    let report = RunReport {
        violations: v.into_iter().filter(|x| x.property == focus).collect(),
        counters: c,
        signature: obs.trace_hash,
        nontrivial,
        sim_time_ns: obs.stats.final_clock_ns,
        steps: obs.stats.steps,
        case_hashes: vec![],
    };
    (report, serde_json::to_value(&sc).unwrap())
}

pub fn replay(focus: &str, scenario: &Value) -> Result<RunReport, String> {
    let sc: S1Scenario = serde_json::from_value(scenario.clone()).map_err(|e| e.to_string())?;
    let (v, c, obs) = execute(focus, &sc);
    Ok(RunReport {
        violations: v.into_iter().filter(|x| x.property == focus).collect(),
        counters: c,
        signature: obs.trace_hash,
        nontrivial: true,
        sim_time_ns: obs.stats.final_clock_ns,
        steps: obs.stats.steps,
        case_hashes: vec![],
    })
}

pub fn summary(scenario: &Value) -> Value {
    let sc: S1Scenario = match serde_json::from_value(scenario.clone()) {
        Ok(s) => s,
        Err(_) => return Value::Null,
    };
    serde_json::json!({
        "graph": {"shape": sc.graph.shape, "states": sc.graph.n, "inits": sc.graph.inits,
                  "edges": sc.graph.edges.iter().map(|e| e.len()).sum::<usize>(),
                  "out_of_boundary": sc.graph.boundary.iter().filter(|b| !**b).count(),
                  "props": sc.graph.props.iter().map(|p| format!("{:?}", p.kind)).collect::<Vec<_>>(),
                  "panic": sc.graph.panic, "tail": sc.graph.tail},
        "strategy": format!("{:?}", sc.strategy), "threads": sc.threads, "finish": sc.finish,
        "target_states": sc.target_states, "target_depth": sc.target_depth, "timeout_ns": sc.timeout_ns,
        "visitor": sc.visitor, "block_size": sc.sched.block_size, "policy": sc.sched.policy,
        "stall_ppm": sc.sched.stall_ppm, "wall_jumps": sc.sched.wall_jumps.len(),
    })
}

/// Candidate simplifications of a scenario, simplest-first. The driver keeps a candidate when the
/// same violation class persists.
pub fn shrink_candidates(scenario: &Value) -> Vec<Value> {
    let sc: S1Scenario = match serde_json::from_value(scenario.clone()) {
        Ok(s) => s,
        Err(_) => return vec![],
    };
    let mut out: Vec<S1Scenario> = Vec::new();
    let mut push = |s: S1Scenario| out.push(s);
    // configuration
    if sc.threads > 1 {
        let mut s = sc.clone();
        s.threads = 1;
        push(s);
        let mut s = sc.clone();
        s.threads = sc.threads - 1;
        push(s);
    }
    if sc.polls > 0 {
        let mut s = sc.clone();
        s.polls = 0;
        push(s);
    }
    for i in 0..sc.pre_requests.len() {
        let mut s = sc.clone();
        s.pre_requests.remove(i);
        push(s);
    }
    if sc.timeout_ns.is_some() {
        let mut s = sc.clone();
        s.timeout_ns = None;
        s.sched.calm_after_wall_ns = None;
        push(s);
    }
    if sc.target_states.is_some() {
        let mut s = sc.clone();
        s.target_states = None;
        if s.strategy != Strategy::Simulation {
            push(s);
        }
    }
    if sc.target_depth.is_some() {
        let mut s = sc.clone();
        s.target_depth = None;
        push(s);
    }
    if !sc.sched.wall_jumps.is_empty() {
        let mut s = sc.clone();
        s.sched.wall_jumps.clear();
        push(s);
    }
    if sc.sched.stall_ppm > 0 {
        let mut s = sc.clone();
        s.sched.stall_ppm = 0;
        push(s);
    }
    if sc.sched.policy != (crate::sched::Policy::Random { stick_pct: 100 }) {
        let mut s = sc.clone();
        s.sched.policy = crate::sched::Policy::Random { stick_pct: 100 };
        push(s);
    }
    if sc.finish != Finish::All {
        let mut s = sc.clone();
        s.finish = Finish::All;
        push(s);
    }
    if sc.graph.panic.is_some() {
        let mut s = sc.clone();
        s.graph.panic = None;
        push(s);
    }
    // artefact: drop properties
    for i in 0..sc.graph.props.len() {
        let mut s = sc.clone();
        s.graph.props.remove(i);
        if let Some(PanicSite::Cond(pi, st)) = s.graph.panic.clone() {
            if pi == i {
                continue;
            } else if pi > i {
                s.graph.panic = Some(PanicSite::Cond(pi - 1, st));
            }
        }
        s.finish = remap_finish(&s.finish, i);
        push(s);
    }
    // drop the last state (edges into it become removed)
    if sc.graph.n > 1 && !sc.graph.tail {
        let mut s = sc.clone();
        let last = (s.graph.n - 1) as u16;
        s.graph.n -= 1;
        s.graph.edges.pop();
        s.graph.boundary.pop();
        for e in s.graph.edges.iter_mut() {
            e.retain(|t| *t != Some(last));
        }
        s.graph.inits.retain(|i| *i != last);
        for p in s.graph.props.iter_mut() {
            p.bits.pop();
        }
        let ok = match &s.graph.panic {
            Some(PanicSite::Actions(x)) | Some(PanicSite::NextState(x)) | Some(PanicSite::Boundary(x)) | Some(PanicSite::Visitor(x)) | Some(PanicSite::Cond(_, x)) => *x != last,
            None => true,
        };
        if ok && !s.graph.inits.is_empty() {
            push(s);
        }
    }
    // drop single edges (on small graphs only: a candidate is a copy of the whole scenario)
    let small = sc.graph.n <= 200;
    for st in 0..if small { sc.graph.n } else { 0 } {
        for a in 0..sc.graph.edges[st].len() {
            let mut s = sc.clone();
            s.graph.edges[st].remove(a);
            push(s);
        }
    }
    // drop initial states, widen the boundary
    if sc.graph.inits.len() > 1 {
        for i in 0..sc.graph.inits.len() {
            let mut s = sc.clone();
            s.graph.inits.remove(i);
            push(s);
        }
    }
    for st in 0..if small { sc.graph.n } else { 0 } {
        if !sc.graph.boundary[st] {
            let mut s = sc.clone();
            s.graph.boundary[st] = true;
            push(s);
        }
    }
    out.into_iter().map(|s| serde_json::to_value(&s).unwrap()).collect()
}

fn remap_finish(f: &Finish, removed: usize) -> Finish {
    let remap = |v: &Vec<String>| -> Vec<String> {
        v.iter()
            .filter_map(|n| match NAMES.iter().position(|x| x == n) {
                Some(i) if i == removed => None,
                Some(i) if i > removed => Some(NAMES[i - 1].to_string()),
                _ => Some(n.clone()),
            })
            .collect()
    };
    match f {
        Finish::AllOf(v) => Finish::AllOf(remap(v)),
        Finish::AnyOf(v) => Finish::AnyOf(remap(v)),
        x => x.clone(),
    }
}
