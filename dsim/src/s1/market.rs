//! C05 (job market): synthetic workers drive the real `JobBroker` (through its cfg-gated facade)
//! under the scheduler: pop, process, spawn children, split_and_push, early exits and panics.

use crate::common::{Counters, RunReport, Violation};
use crate::rng::Rng;
use crate::sched::{AbortReason, Sched, SchedSpec, Shared, SimShutdown};
use serde::{Deserialize, Serialize};
use serde_json::Value;
use stateright::verif_hooks::std_shim::thread as sim_thread;
use stateright::JobBrokerFacade;
use std::collections::{BTreeMap, VecDeque};
use std::panic::{catch_unwind, AssertUnwindSafe};

#[derive(Clone, Debug, Serialize, Deserialize)]
pub struct MarketScenario {
    pub workers: usize,
    /// children[j] = jobs created when job j is processed (a forest rooted at the initial jobs)
    pub children: Vec<Vec<u32>>,
    pub initial: Vec<u32>,
    pub block: usize,
    /// a worker returns (dropping its broker) right after processing this job
    pub exit_after: Option<u32>,
    /// a worker panics while processing this job
    pub panic_at: Option<u32>,
    pub timeout_ns: Option<u64>,
    pub sched: SchedSpec,
}

pub fn gen_market(seed: u64) -> MarketScenario {
    let mut rng = Rng::new(seed);
    let n = rng.range(1, 120) as usize;
    let roots = rng.range(1, 3).min(n as u64) as usize;
    let mut children = vec![Vec::new(); n];
    for j in roots..n {
        // parent among earlier jobs; bias towards wide or deep shapes
        let parent = match rng.below(3) {
            0 => rng.usize_below(j),
            1 => j - 1,
            _ => rng.usize_below(roots.max(1)),
        };
        children[parent].push(j as u32);
    }
    let mut sched = super::gen::gen_sched(&mut rng, 400_000);
    sched.block_size = 0;
    let mode = rng.below(6);
    MarketScenario {
        workers: rng.range(1, 4) as usize,
        children,
        initial: (0..roots as u32).collect(),
        block: *rng.pick(&[1usize, 1, 2, 3, 8, 1500]),
        exit_after: if mode == 0 { Some(rng.below(n as u64) as u32) } else { None },
        panic_at: if mode == 1 { Some(rng.below(n as u64) as u32) } else { None },
        timeout_ns: if mode == 2 { Some(3_600_000_000_000) } else { None },
        sched,
    }
}

pub fn execute(sc: &MarketScenario) -> (Vec<Violation>, Counters, u64, u64, u64) {
    let mut v = Vec::new();
    let mut c = Counters::default();
    let sched = Sched::new(sc.sched.clone());
    let processed: Shared<Vec<(u32, usize)>> = Shared::new(Vec::new());
    let exited: Shared<Vec<usize>> = Shared::new(Vec::new());
    sched.enter();
    let res = catch_unwind(AssertUnwindSafe(|| {
        let close_at = sc.timeout_ns.map(|t| JobBrokerFacade::<u32>::now() + std::time::Duration::from_nanos(t));
        let mut broker: JobBrokerFacade<u32> = JobBrokerFacade::new(sc.workers, close_at);
        broker.push(sc.initial.iter().cloned().collect());
        let mut handles = Vec::new();
        for w in 0..sc.workers {
            let mut b = broker.clone();
            let scn = sc.clone();
            let log = processed.clone();
            let ex = exited.clone();
            handles.push(
                sim_thread::Builder::new()
                    .name(format!("worker-{}", w))
                    .spawn(move || {
                        let mut pending: VecDeque<u32> = VecDeque::new();
                        loop {
                            if pending.is_empty() {
                                pending = b.pop();
                                if pending.is_empty() {
                                    ex.with(|e| e.push(w));
                                    return;
                                }
                            }
                            let mut budget = scn.block;
                            while budget > 0 {
                                budget -= 1;
                                let Some(j) = pending.pop_back() else { break };
                                log.with(|l| l.push((j, w)));
                                if scn.panic_at == Some(j) {
                                    panic!("injected worker panic at job {}", j);
                                }
                                for ch in &scn.children[j as usize] {
                                    pending.push_front(*ch);
                                }
                                if scn.exit_after == Some(j) {
                                    ex.with(|e| e.push(w));
                                    return; // like a worker whose finish condition is met
                                }
                            }
                            if pending.len() > 1 && scn.workers > 1 {
                                b.split_and_push(&mut pending);
                            }
                        }
                    })
                    .unwrap(),
            );
        }
        let mut panicked = 0;
        for h in handles {
            if h.join().is_err() {
                panicked += 1;
            }
        }
        (panicked, broker.is_closed())
    }));
    let aborted = sched.aborted();
    let _ = sched.leave(aborted.is_some());
    let st = sched.stats();
    let log = processed.with(|l| l.clone());
    let total = sc.children.len();
    match &aborted {
        Some(AbortReason::Budget) => v.push(Violation::new("C05", "no-termination:market", format!("step budget exhausted with {} workers", sc.workers))),
        Some(AbortReason::Deadlock(d)) => v.push(Violation::new("C05", "deadlock:market", format!("no thread can run: {}", d))),
        _ => {}
    }
    let mut count: BTreeMap<u32, Vec<usize>> = BTreeMap::new();
    for (j, w) in &log {
        count.entry(*j).or_default().push(*w);
    }
    if let Some((j, ws)) = count.iter().find(|(_, ws)| ws.len() > 1) {
        v.push(Violation::new("C05", "job-duplicated", format!("job {} was processed by workers {:?}", j, ws)));
    }
    match res {
        Ok((panicked, closed)) => {
            c.inc("market_runs");
            let early = sc.exit_after.is_some() || sc.panic_at.is_some();
            if sc.panic_at.is_some() {
                if count.contains_key(&sc.panic_at.unwrap()) {
                    c.inc("fault_worker_panic_fired");
                    if panicked == 0 {
                        v.push(Violation::new("C05", "panic-swallowed", "a worker panicked but every join returned Ok".to_string()));
                    }
                }
            }
            if sc.exit_after.map(|j| count.contains_key(&j)).unwrap_or(false) {
                c.inc("fault_worker_early_exit_fired");
            }
            if !early && aborted.is_none() {
                if count.len() != total {
                    let missing: Vec<usize> = (0..total).filter(|j| !count.contains_key(&(*j as u32))).take(5).collect();
                    v.push(Violation::new("C05", "job-lost", format!("{} of {} jobs were processed; never processed: {:?} ({} workers, block {})", count.len(), total, missing, sc.workers, sc.block)));
                }
                if !closed {
                    v.push(Violation::new("C05", "market-not-closed", "all workers returned but is_closed() is false".to_string()));
                }
            }
            if exited.with(|e| e.len()) + panicked != sc.workers && aborted.is_none() {
                v.push(Violation::new("C05", "no-termination:market", "not every worker returned".to_string()));
            }
        }
        Err(e) => {
            if !e.is::<SimShutdown>() {
                v.push(Violation::new("C05", "harness-panic:market", "unexpected panic in the harness thread".to_string()));
            }
        }
    }
    c.add("probe_cv_waits", st.cv_waits);
    c.add("probe_mutex_contended", st.mutex_blocked);
    c.add("market_jobs_processed", log.len() as u64);
    let mut seen = std::collections::BTreeSet::new();
    v.retain(|x| seen.insert(x.class.clone()));
    (v, c, sched.trace_hash(), st.steps, st.final_clock_ns)
}

pub fn run_case(seed: u64) -> (RunReport, Value) {
    let sc = gen_market(seed);
    let (v, c, sig, steps, clock) = execute(&sc);
    (RunReport { violations: v, counters: c, signature: sig, nontrivial: steps >= 30, sim_time_ns: clock, steps, case_hashes: vec![] }, serde_json::to_value(&sc).unwrap())
}
pub fn replay(scenario: &Value) -> Result<RunReport, String> {
    let sc: MarketScenario = serde_json::from_value(scenario.clone()).map_err(|e| e.to_string())?;
    let (v, c, sig, steps, clock) = execute(&sc);
    Ok(RunReport { violations: v, counters: c, signature: sig, nontrivial: true, sim_time_ns: clock, steps, case_hashes: vec![] })
}
pub fn summary(scenario: &Value) -> Value {
    serde_json::json!({"job_market_facade": true, "workers": scenario["workers"], "jobs": scenario["children"].as_array().map(|a| a.len()), "initial": scenario["initial"], "block": scenario["block"], "exit_after": scenario["exit_after"], "panic_at": scenario["panic_at"], "timeout_ns": scenario["timeout_ns"], "policy": scenario["sched"]["policy"]})
}
pub fn shrink_candidates(scenario: &Value) -> Vec<Value> {
    let Ok(sc) = serde_json::from_value::<MarketScenario>(scenario.clone()) else { return vec![] };
    let mut out = Vec::new();
    if sc.workers > 1 {
        let mut s = sc.clone();
        s.workers -= 1;
        out.push(s);
    }
    // drop the last job (a leaf, since parents precede children)
    if sc.children.len() > sc.initial.len() {
        let mut s = sc.clone();
        let last = (s.children.len() - 1) as u32;
        s.children.pop();
        for ch in s.children.iter_mut() {
            ch.retain(|x| *x != last);
        }
        if s.exit_after != Some(last) && s.panic_at != Some(last) {
            out.push(s);
        }
    }
    if sc.timeout_ns.is_some() {
        let mut s = sc.clone();
        s.timeout_ns = None;
        out.push(s);
    }
    let mut s = sc.clone();
    s.sched.policy = crate::sched::Policy::Random { stick_pct: 100 };
    out.push(s);
    out.into_iter().map(|s| serde_json::to_value(&s).unwrap()).collect()
}
