//! Oracles over the observations of one S1 run. Each demands only what its property states.

use super::graph::*;
use super::run::*;
use crate::common::{Counters, Violation};
use crate::sched::AbortReason;
use stateright::Model;
use std::collections::{BTreeMap, BTreeSet};

pub struct Judged {
    pub violations: Vec<Violation>,
    pub counters: Counters,
    pub completed_exhaustive: bool,
    /// As above, but a timeout that had not expired when join returned is allowed.
    pub completed_exhaustive_modulo_timeout: bool,
}

fn exhaustive_strategy(s: Strategy) -> bool {
    matches!(s, Strategy::Bfs | Strategy::Dfs | Strategy::OnDemand)
}

pub fn discovered_names(obs: &Obs) -> BTreeSet<String> {
    obs.discoveries.as_ref().map(|d| d.keys().cloned().collect()).unwrap_or_default()
}

/// The run was an exhaustive strategy without any early-exit condition, and it came back.
pub fn completed_exhaustive(sc: &S1Scenario, obs: &Obs) -> bool {
    completed_exhaustive_ext(sc, obs, false)
}

pub fn completed_exhaustive_ext(sc: &S1Scenario, obs: &Obs, allow_unexpired_timeout: bool) -> bool {
    let timeout_blocks = match (sc.timeout_ns, allow_unexpired_timeout) {
        (None, _) => false,
        (Some(_), false) => true,
        (Some(_), true) => match (obs.timeout_deadline_wall_ns, obs.join_returned_at_wall_ns) {
            (Some(d), Some(j)) => j >= d,
            _ => true,
        },
    };
    if !exhaustive_strategy(sc.strategy)
        || sc.target_states.is_some()
        || sc.target_depth.is_some()
        || timeout_blocks
        || sc.graph.panic.is_some()
        || obs.join != JoinOutcome::Returned
        || obs.abort.is_some()
        || obs.discoveries.is_err()
    {
        return false;
    }
    let d = discovered_names(obs);
    if d.len() == sc.graph.props.len() {
        return false; // all discovered: a legitimate early stop
    }
    if sc.graph.props.is_empty() {
        return false;
    }
    // on-demand ignores the finish condition (it only stops on "all discovered")
    if sc.strategy != Strategy::OnDemand && sc.finish.reference_matches(&d, &sc.graph) {
        return false;
    }
    true
}

pub fn judge(sc: &S1Scenario, obs: &Obs) -> Judged {
    let g = &sc.graph;
    let rf = Reference::new(g);
    let r = rf.reachable();
    let mut v: Vec<Violation> = Vec::new();
    let mut c = Counters::default();
    let strat = format!("{:?}", sc.strategy);
    let complete = completed_exhaustive(sc, obs);
    let panic_fired = obs.panic_fired;

    c.add("visits", obs.visits.len() as u64);
    if complete {
        c.inc("runs_completed_exhaustive");
    }
    if rf.is_forest {
        c.inc("graphs_forest");
    }

    // ---------------------------------------------------------------- C05: termination, deadlock
    match &obs.abort {
        Some(AbortReason::Budget) if g.tail && !(obs.panic_fired || obs.stats.calm_started_at_step.is_some()) => {
            // an effectively unbounded model and no stop reason has occurred yet (e.g. the worker
            // that would panic was starved by the schedule): nothing to judge
            c.inc("probe_tail_budget_without_stop_reason");
        }
        Some(AbortReason::Budget) => {
            v.push(Violation::new(
                "C05",
                format!("no-termination:{}", strat),
                format!("step budget {} exhausted; threads={}", sc.sched.budget, sc.threads),
            ));
        }
        Some(AbortReason::Deadlock(d)) => {
            let class = if d.contains("main#0:join") && sc.strategy == Strategy::OnDemand && d.contains(":recv") {
                "join-hang:OnDemand".to_string()
            } else {
                format!("deadlock:{}", strat)
            };
            v.push(Violation::new("C05", class, format!("no thread can run: {}", d)));
        }
        _ => {}
    }
    if obs.join == JoinOutcome::Dropped {
        c.inc("fault_checker_dropped_without_join");
        if let Some(l) = &obs.leaked {
            v.push(Violation::new("C05", format!("deadlock:{}", strat), format!("checker dropped without join; threads left blocked: {}", l)));
        }
    }
    if g.panic.is_some() {
        c.inc("panic_configured");
        if panic_fired {
            c.inc("fault_model_panic_fired");
        }
        // a fired panic must surface from join
        if obs.panic_fired && obs.join == JoinOutcome::Returned {
            v.push(Violation::new("C05", "panic-swallowed", "a worker panicked in model code but join() returned normally"));
        }
    }

    // ---------------------------------------------------------------- visitor-based checks
    let mut seen: BTreeMap<u16, usize> = BTreeMap::new();
    for vis in &obs.visits {
        *seen.entry(vis.state).or_insert(0) += 1;
    }
    if sc.visitor && exhaustive_strategy(sc.strategy) {
        for (s, n) in &seen {
            if !r.contains(s) {
                v.push(Violation::new("C01", "extra-state", format!("state {} evaluated but not reachable in boundary", s)));
            }
            if *n > 1 {
                v.push(Violation::new("C01", "double-visit", format!("state {} evaluated {} times", s, n)));
                v.push(Violation::new("C05", "job-duplicated", format!("state {} evaluated {} times", s, n)));
            }
        }
        for vis in &obs.visits {
            match rf.validate_path(g, &vis.path) {
                Ok(states) => {
                    if states.last() != Some(&vis.state) {
                        v.push(Violation::new("C01", "bad-visitor-path", format!("path ends in {:?}, state is {}", states.last(), vis.state)));
                    }
                }
                Err(e) => v.push(Violation::new("C01", "bad-visitor-path", format!("state {}: {}", vis.state, e))),
            }
        }
        if complete {
            for s in &r {
                if !seen.contains_key(s) {
                    v.push(Violation::new("C01", "missing-state", format!("reachable state {} (depth {}) never evaluated; {} threads", s, rf.depth[s], sc.threads)));
                    v.push(Violation::new("C05", "job-lost", format!("reachable state {} never evaluated; {} threads", s, sc.threads)));
                }
            }
        }
    }
    if complete {
        if obs.unique_state_count != r.len() {
            v.push(Violation::new("C01", "unique-count", format!("unique_state_count {} != |reachable| {}", obs.unique_state_count, r.len())));
        }
        if obs.state_count < obs.unique_state_count {
            v.push(Violation::new("C01", "unique-count", format!("state_count {} < unique_state_count {}", obs.state_count, obs.unique_state_count)));
        }
    }

    if let (Some(m), JoinOutcome::Returned) = (&obs.helper_mismatch, &obs.join) {
        v.push(Violation::new("C02", "helper-mismatch", format!("per-property helpers disagree with discoveries(): {}", m)));
    }
    if obs.assert_ok_before_done && exhaustive_strategy(sc.strategy) {
        v.push(Violation::new("C02", "assert-before-done", "assert_properties() returned normally while is_done() was still false".to_string()));
    }
    // ---------------------------------------------------------------- discoveries
    let disc = match &obs.discoveries {
        Ok(d) => Some(d),
        Err(e) => {
            if obs.join == JoinOutcome::Returned {
                v.push(Violation::new("C03", "empty-path-panic", format!("discoveries() panicked after join: {}", first_line(e))));
            }
            None
        }
    };
    if let (Some(disc), JoinOutcome::Returned) = (disc, &obs.join) {
        let dn: BTreeSet<String> = disc.keys().cloned().collect();
        for (i, p) in g.props.iter().enumerate() {
            let name = NAMES[i];
            let witness_exists = match p.kind {
                Kind::Always => r.iter().any(|s| !g.bit(i, *s)),
                Kind::Sometimes => r.iter().any(|s| g.bit(i, *s)),
                Kind::Eventually => rf.eventually_counterexample_exists(g, i),
            };
            let found = disc.get(name);
            // C03: the reported path is a genuine witness (also the path handed to a Reporter)
            let reported: Option<&Vec<(u16, Option<u16>)>> = obs.report.as_ref().and_then(|r| r.discoveries.as_ref()).and_then(|d| d.get(name)).map(|x| &x.1);
            if let Some((class, _)) = obs.report.as_ref().and_then(|r| r.discoveries.as_ref()).and_then(|d| d.get(name)) {
                c.inc("reporter_discoveries_checked");
                let want = if p.kind == Kind::Sometimes { "example" } else { "counterexample" };
                if class != want {
                    v.push(Violation::new("C02", "classification:report", format!("{} ({:?}) was reported to the Reporter as {:?}", name, p.kind, class)));
                }
            }
            for (path, strat) in found.map(|f| (f, strat.clone())).into_iter().chain(reported.map(|f| (f, format!("{}+report", strat))).into_iter()) {
                c.inc(&format!("discoveries_{:?}", p.kind));
                match rf.validate_path(g, path) {
                    Err(e) => {
                        let class = if e.starts_with("path-leaves-boundary") { "path-leaves-boundary" } else { "path-not-executable" };
                        v.push(Violation::new("C03", format!("{}:{}", class, strat), format!("{} {:?}: {}", name, p.kind, e)));
                    }
                    Ok(states) => {
                        let last = *states.last().unwrap();
                        match p.kind {
                            Kind::Always => {
                                if g.bit(i, last) {
                                    v.push(Violation::new("C03", format!("last-state-not-witness:{}", strat), format!("always {}: last state {} satisfies it", name, last)));
                                }
                            }
                            Kind::Sometimes => {
                                if !g.bit(i, last) {
                                    v.push(Violation::new("C03", format!("last-state-not-witness:{}", strat), format!("sometimes {}: last state {} does not satisfy it", name, last)));
                                }
                            }
                            Kind::Eventually => {
                                if let Some(s) = states.iter().find(|s| g.bit(i, **s)) {
                                    v.push(Violation::new("C03", format!("eventually-path-satisfied:{}", strat), format!("eventually {}: state {} on the path {:?} satisfies it", name, s, states)));
                                } else {
                                    let terminal = rf.is_terminal(last);
                                    let closes_cycle = sc.strategy == Strategy::Simulation
                                        && states[..states.len() - 1].contains(&last);
                                    if !terminal && !closes_cycle {
                                        v.push(Violation::new("C03", format!("eventually-path-extendable:{}", strat), format!("eventually {}: path {:?} can be extended inside the boundary (successors of {}: {:?})", name, states, last, rf.succ.get(&last))));
                                    }
                                }
                            }
                        }
                    }
                }
            }
            // C02 / C11 "if" direction: a discovery needs an existing witness
            match (p.kind, found.is_some(), witness_exists) {
                (Kind::Always, true, false) => v.push(Violation::new("C02", "false-always", format!("{} reported but no reachable state violates it", name))),
                (Kind::Sometimes, true, false) => v.push(Violation::new("C02", "false-sometimes", format!("{} reported but no reachable state satisfies it", name))),
                (Kind::Eventually, true, false) => v.push(Violation::new("C11", format!("false-alarm:{}", strat), format!("{} reported but every maximal in-boundary path satisfies it", name))),
                _ => {}
            }
            // "only if" direction needs a completed exhaustive run
            if complete {
                match (p.kind, found.is_some(), witness_exists) {
                    (Kind::Always, false, true) => v.push(Violation::new("C02", "missed-always", format!("{}: a reachable state violates it but no counterexample was reported ({} threads)", name, sc.threads))),
                    (Kind::Sometimes, false, true) => v.push(Violation::new("C02", "missed-sometimes", format!("{}: a reachable state satisfies it but no example was reported ({} threads)", name, sc.threads))),
                    (Kind::Eventually, false, true) if rf.is_forest => v.push(Violation::new("C11", format!("forest-miss:{}", strat), format!("{}: forest-shaped model has a maximal path never satisfying it, nothing reported", name))),
                    _ => {}
                }
                if p.kind == Kind::Eventually && rf.is_forest {
                    c.inc("eventually_forest_exact_checked");
                }
            }
        }
        if complete {
            // assert_properties and is_done
            let expect_ok = g.props.iter().enumerate().all(|(i, p)| match p.kind {
                Kind::Always => !r.iter().any(|s| !g.bit(i, *s)),
                Kind::Sometimes => r.iter().any(|s| g.bit(i, *s)),
                Kind::Eventually => !dn.contains(NAMES[i]),
            });
            if let Some(ok) = obs.assert_properties_ok {
                if ok != expect_ok {
                    v.push(Violation::new("C02", "assert-mismatch", format!("assert_properties {} but expected {}", if ok { "succeeded" } else { "panicked" }, if expect_ok { "success" } else { "a panic" })));
                }
            }
            if !obs.is_done {
                v.push(Violation::new("C02", "not-done", "is_done() is false after a completed exhaustive check"));
            }
        }

        // ------------------------------------------------------------ C12
        // (a) matches
        let real = sc.finish.to_real();
        let model = GModel::new(g.clone());
        let props = model.properties();
        let dn_static: BTreeSet<&'static str> = dn.iter().map(|s| NAMES.iter().find(|n| **n == s.as_str()).copied().unwrap_or("nosuch")).collect();
        if real.matches(&dn_static, &props) != sc.finish.reference_matches(&dn, g) {
            v.push(Violation::new("C12", format!("matches:{}", finish_name(&sc.finish)), format!("HasDiscoveries::{:?}.matches({:?}) disagrees with the reference", sc.finish, dn)));
        }
        // (b) early stop is justified
        let all_discovered = dn.len() == g.props.len();
        let finish_matched = sc.strategy != Strategy::OnDemand && sc.finish.reference_matches(&dn, g);
        let target_reached = sc.target_states.map(|t| obs.state_count >= t).unwrap_or(false);
        let timeout_expired = match (obs.timeout_deadline_wall_ns, obs.join_returned_at_wall_ns) {
            (Some(d), Some(j)) => j >= d,
            _ => false,
        };
        if timeout_expired {
            c.inc("fault_timeout_expired_before_join");
        }
        if target_reached {
            c.inc("stop_target_reached");
        }
        if finish_matched && !all_discovered {
            c.inc("stop_finish_condition");
        }
        if sc.visitor && exhaustive_strategy(sc.strategy) && g.panic.is_none() {
            let stopped_early = r.iter().any(|s| !seen.contains_key(s));
            if stopped_early {
                c.inc("runs_stopped_early");
                let justified = all_discovered || finish_matched || target_reached || timeout_expired || sc.target_depth.is_some() || g.props.is_empty();
                if !justified {
                    v.push(Violation::new("C12", format!("unjustified-stop:{}", strat), format!("stopped with {} of {} reachable states evaluated; discoveries {:?}, finish {:?}, target {:?}, state_count {}", seen.len(), r.len(), dn, sc.finish, sc.target_states, obs.state_count)));
                }
            }
            // (c) target state count
            if let Some(t) = sc.target_states {
                let other_reason = all_discovered || finish_matched || timeout_expired || sc.target_depth.is_some() || g.props.is_empty();
                if obs.state_count < t && stopped_early && !other_reason {
                    v.push(Violation::new("C12", format!("below-target:{}", strat), format!("state_count {} < target {} although more states exist", obs.state_count, t)));
                }
                // the same, counted on the model's side (the checker's own counter could be off)
                if obs.model_generated < t && stopped_early && !other_reason {
                    v.push(Violation::new("C12", format!("below-target:{}", strat), format!("the checker generated {} states (counted by the model) < target {} although more states exist; it reports state_count {}", obs.model_generated, t, obs.state_count)));
                }
            }
        }
        // (c') the simulation strategy only stops on its finish condition, its target or a timeout
        if sc.strategy == Strategy::Simulation && g.panic.is_none() {
            if let Some(t) = sc.target_states {
                let finish_matched_sim = sc.finish.reference_matches(&dn, g);
                if obs.state_count < t && !finish_matched_sim && !timeout_expired && !g.props.is_empty() {
                    v.push(Violation::new("C12", "below-target:Simulation", format!("the simulation returned with state_count {} < target {} and no other stop reason (discoveries {:?}, finish {:?})", obs.state_count, t, dn, sc.finish)));
                }
                c.inc("simulation_target_checked");
            }
        }
        // (d) depth limit
        if let Some(limit) = sc.target_depth {
            for vis in &obs.visits {
                if vis.path.len() > limit {
                    v.push(Violation::new("C12", format!("too-deep:{}", strat), format!("state {} evaluated at depth {} > target_max_depth {}", vis.state, vis.path.len(), limit)));
                    break;
                }
            }
            if sc.strategy == Strategy::Bfs
                && sc.threads == 1
                && sc.visitor
                && g.panic.is_none()
                && !all_discovered
                && !finish_matched
                && sc.target_states.is_none()
                && sc.timeout_ns.is_none()
                && !g.props.is_empty()
            {
                c.inc("depth_limit_completeness_checked");
                for (s, d) in &rf.depth {
                    if *d < limit && !seen.contains_key(s) {
                        v.push(Violation::new("C12", "shallow-missed", format!("state {} at depth {} < limit {} was not evaluated", s, d, limit)));
                    }
                }
            }
        }
    }

    // ---------------------------------------------------------------- C12 timeout liveness
    if let Some(deadline) = obs.timeout_deadline_wall_ns {
        if obs.stats.blocked_on_sleeping_owner > 0 {
            v.push(Violation::new("C12", "lock-held-asleep", format!("{} time(s) a thread was blocked on a mutex whose owner was asleep (threads={})", obs.stats.blocked_on_sleeping_owner, sc.threads)));
        }
        if sc.sched.calm_after_wall_ns.is_some() && g.panic.is_none() {
            // bounded liveness after faults stop
            let k = liveness_bound(sc);
            let tclass = format!("timeout-late:{},{}", strat, if sc.threads == 1 { "single" } else { "multi" });
            match (&obs.join, obs.stats.calm_started_at_step) {
                (JoinOutcome::Returned, Some(calm_at)) => {
                    let after = obs.join_returned_at_step.unwrap_or(0).saturating_sub(calm_at);
                    c.inc("timeout_liveness_judged");
                    if after > k {
                        v.push(Violation::new("C12", tclass, format!("join returned {} steps after the timeout expired (bound {})", after, k)));
                    }
                    let _ = deadline;
                }
                (JoinOutcome::Aborted, Some(_)) if obs.abort == Some(AbortReason::Budget) => {
                    c.inc("timeout_liveness_judged");
                    v.push(Violation::new("C12", tclass, format!("timeout expired but the check never stopped (step budget exhausted, {} steps after expiry)", obs.stats.steps_after_calm)));
                }
                _ => {}
            }
        }
    }

    // ---------------------------------------------------------------- C13
    if sc.strategy == Strategy::Bfs && sc.threads == 1 && obs.join == JoinOutcome::Returned {
        if sc.visitor {
            let mut last = 0usize;
            for vis in &obs.visits {
                let d = vis.path.len();
                if d < last {
                    v.push(Violation::new("C13", "order", format!("state {} evaluated at depth {} after a state at depth {}", vis.state, d, last)));
                    break;
                }
                last = d;
                if let Some(rd) = rf.depth.get(&vis.state) {
                    if *rd != d {
                        v.push(Violation::new("C13", "order", format!("state {} evaluated via a path of {} states, shortest is {}", vis.state, d, rd)));
                        break;
                    }
                }
            }
            c.inc("bfs_order_checked");
        }
        if let Some(disc) = disc {
            for (i, p) in g.props.iter().enumerate() {
                if let Some(path) = disc.get(NAMES[i]) {
                    let min = match p.kind {
                        Kind::Always => r.iter().filter(|s| !g.bit(i, **s)).map(|s| rf.depth[s]).min(),
                        Kind::Sometimes => r.iter().filter(|s| g.bit(i, **s)).map(|s| rf.depth[s]).min(),
                        Kind::Eventually => None,
                    };
                    if let Some(min) = min {
                        c.inc("bfs_shortest_checked");
                        if path.len() != min {
                            v.push(Violation::new("C13", "not-shortest", format!("{:?} {}: reported path has {} states, shortest witness has {}", p.kind, NAMES[i], path.len(), min)));
                        }
                    }
                }
            }
        }
    }

    // probes from the scheduler
    c.add("probe_cv_waits", obs.stats.cv_waits);
    c.add("probe_mutex_contended", obs.stats.mutex_blocked);
    c.add("probe_time_jumps", obs.stats.time_jumps);
    c.add("fault_stalls", obs.stats.stalls);
    c.add("fault_wall_jumps", obs.stats.wall_jumps);
    c.add("sched_switches", obs.stats.switches);
    if obs.stats.threads > 1 {
        c.add(&format!("runs_threads_{}", sc.threads), 1);
    }
    c.inc(&format!("runs_strategy_{}", strat));

    dedup(&mut v);
    let cm = completed_exhaustive_ext(sc, obs, true);
    Judged { violations: v, counters: c, completed_exhaustive: complete, completed_exhaustive_modulo_timeout: cm }
}

pub fn liveness_bound(sc: &S1Scenario) -> u64 {
    let block = if sc.sched.block_size == 0 { 1500 } else { sc.sched.block_size } as u64;
    let states = if sc.graph.tail { 65536 } else { sc.graph.n as u64 };
    let per_state = 40 + if sc.visitor { states.min(100) } else { 0 };
    // one block per worker may still be in progress when the shutdown becomes visible; the poll
    // period of the timeout thread is 1 s = 1000 calm steps, and ten periods are allowed
    (sc.threads as u64) * (block.min(states) * per_state + 200) + 1000 + 10_000
}

fn finish_name(f: &Finish) -> &'static str {
    match f {
        Finish::All => "All",
        Finish::Any => "Any",
        Finish::AnyFailures => "AnyFailures",
        Finish::AllFailures => "AllFailures",
        Finish::AllOf(_) => "AllOf",
        Finish::AnyOf(_) => "AnyOf",
    }
}

fn first_line(s: &str) -> String {
    s.trim().lines().next().unwrap_or("").chars().take(160).collect()
}

fn dedup(v: &mut Vec<Violation>) {
    let mut seen = BTreeSet::new();
    v.retain(|x| seen.insert((x.property.clone(), x.class.clone())));
}
