//! Pins the otherwise per-process random keys of ahash (used by `HashableHashSet/Map::default()`),
//! so that hash iteration order is a function of the run, not of the process.
//!
//! Two seams: getrandom 0.3's custom backend (fixed bytes for ahash's process-wide keys) and
//! ahash's `RandomSource` (a counter we reset at the start of every run).

use std::sync::atomic::{AtomicU64, Ordering};

static CTR: AtomicU64 = AtomicU64::new(1000);

#[no_mangle]
unsafe extern "Rust" fn __getrandom_v03_custom(dest: *mut u8, len: usize) -> Result<(), getrandom::Error> {
    for i in 0..len {
        *dest.add(i) = (i as u8).wrapping_mul(31).wrapping_add(7);
    }
    Ok(())
}

struct Src;
impl ahash::random_state::RandomSource for Src {
    fn gen_hasher_seed(&self) -> usize {
        CTR.fetch_add(1, Ordering::Relaxed) as usize
    }
}

pub fn install() {
    let _ = ahash::random_state::set_random_source(Src);
}

/// Call at the start of every run.
pub fn reset(run_seed: u64) {
    CTR.store(1000 + (run_seed % 1_000_003), Ordering::Relaxed);
}
