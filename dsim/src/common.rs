//! Types shared by all subsystems.

use serde::{Deserialize, Serialize};
use std::collections::BTreeMap;

#[derive(Clone, Debug, Serialize, Deserialize, PartialEq)]
pub struct Violation {
    pub property: String,
    /// Violation class (DESIGN.md appendix D), the unit of shrinking and of known-finding signatures.
    pub class: String,
    pub message: String,
}

impl Violation {
    pub fn new(property: &str, class: impl Into<String>, message: impl Into<String>) -> Self {
        Violation { property: property.to_string(), class: class.into(), message: message.into() }
    }
}

/// Counters reported in the evidence. Probes never influence a verdict.
#[derive(Clone, Debug, Default, Serialize, Deserialize)]
pub struct Counters(pub BTreeMap<String, u64>);

impl Counters {
    pub fn add(&mut self, k: &str, v: u64) {
        if v > 0 {
            *self.0.entry(k.to_string()).or_insert(0) += v;
        }
    }
    pub fn inc(&mut self, k: &str) {
        self.add(k, 1)
    }
    pub fn merge(&mut self, o: &Counters) {
        for (k, v) in &o.0 {
            *self.0.entry(k.clone()).or_insert(0) += v;
        }
    }
    pub fn get(&self, k: &str) -> u64 {
        self.0.get(k).cloned().unwrap_or(0)
    }
}

/// Result of one run, as sent from a worker process to the driver.
#[derive(Clone, Debug, Default, Serialize, Deserialize)]
pub struct RunReport {
    pub violations: Vec<Violation>,
    pub counters: Counters,
    /// Hash identifying the interleaving / state sequence of this run (for distinctness counts).
    pub signature: u64,
    /// Whether the run is non-trivial by the property's stated rule.
    pub nontrivial: bool,
    pub sim_time_ns: u64,
    pub steps: u64,
    /// Hashes of distinct states / cases seen in the run (bounded), for distinctness counts.
    #[serde(default)]
    pub case_hashes: Vec<u64>,
}
