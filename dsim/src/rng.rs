//! The only source of randomness in the harness: splitmix64 seeding a xoshiro256**.
//! Nothing here reads a clock or the OS.

#[derive(Clone, Debug)]
pub struct Rng {
    s: [u64; 4],
}

pub fn splitmix64(x: &mut u64) -> u64 {
    *x = x.wrapping_add(0x9E37_79B9_7F4A_7C15);
    let mut z = *x;
    z = (z ^ (z >> 30)).wrapping_mul(0xBF58_476D_1CE4_E5B9);
    z = (z ^ (z >> 27)).wrapping_mul(0x94D0_49BB_1331_11EB);
    z ^ (z >> 31)
}

/// Mixes several integers into one seed.
pub fn mix(parts: &[u64]) -> u64 {
    let mut acc = 0x243F_6A88_85A3_08D3u64;
    for p in parts {
        let mut x = acc ^ p.wrapping_mul(0x9E37_79B9_7F4A_7C15);
        acc = splitmix64(&mut x);
    }
    acc
}

pub fn hash_str(s: &str) -> u64 {
    let mut h = 0xcbf2_9ce4_8422_2325u64;
    for b in s.bytes() {
        h ^= b as u64;
        h = h.wrapping_mul(0x0000_0100_0000_01b3);
    }
    h
}

impl Rng {
    pub fn new(seed: u64) -> Self {
        let mut x = seed;
        let s = [
            splitmix64(&mut x),
            splitmix64(&mut x),
            splitmix64(&mut x),
            splitmix64(&mut x),
        ];
        Rng { s }
    }
    /// An independent stream derived from this one's seed material and a label.
    pub fn fork(&mut self, label: &str) -> Rng {
        let a = self.next_u64();
        Rng::new(mix(&[a, hash_str(label)]))
    }
    pub fn next_u64(&mut self) -> u64 {
        let s = &mut self.s;
        let result = s[1].wrapping_mul(5).rotate_left(7).wrapping_mul(9);
        let t = s[1] << 17;
        s[2] ^= s[0];
        s[3] ^= s[1];
        s[1] ^= s[2];
        s[0] ^= s[3];
        s[2] ^= t;
        s[3] = s[3].rotate_left(45);
        result
    }
    /// Uniform in `0..n` (n > 0).
    pub fn below(&mut self, n: u64) -> u64 {
        debug_assert!(n > 0);
        // multiply-shift; bias is irrelevant at our sizes
        ((self.next_u64() as u128 * n as u128) >> 64) as u64
    }
    pub fn usize_below(&mut self, n: usize) -> usize {
        self.below(n as u64) as usize
    }
    /// Uniform in `lo..=hi`.
    pub fn range(&mut self, lo: u64, hi: u64) -> u64 {
        lo + self.below(hi - lo + 1)
    }
    pub fn chance(&mut self, num: u64, den: u64) -> bool {
        self.below(den) < num
    }
    pub fn pick<'a, T>(&mut self, xs: &'a [T]) -> &'a T {
        &xs[self.usize_below(xs.len())]
    }
    pub fn shuffle<T>(&mut self, xs: &mut [T]) {
        for i in (1..xs.len()).rev() {
            let j = self.usize_below(i + 1);
            xs.swap(i, j);
        }
    }
    /// Picks an index with the given weights.
    pub fn weighted(&mut self, weights: &[u64]) -> usize {
        let total: u64 = weights.iter().sum();
        let mut r = self.below(total.max(1));
        for (i, w) in weights.iter().enumerate() {
            if r < *w {
                return i;
            }
            r -= *w;
        }
        weights.len() - 1
    }
}
