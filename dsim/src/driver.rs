//! Driver: shards runs over worker processes, aggregates, consults the known-findings file,
//! shrinks and replays violations, writes evidence.

use crate::cases;
use crate::common::{Counters, RunReport, Violation};
use crate::rng::{hash_str, mix};
use serde::{Deserialize, Serialize};
use serde_json::{json, Value};
use std::collections::{BTreeMap, BTreeSet};
use std::io::{BufRead, BufReader};
use std::path::{Path, PathBuf};
use std::process::{Command, Stdio};
use std::sync::{Arc, Mutex};
use std::time::{Duration, Instant};

pub const DEFAULT_SEED: u64 = 20260923;
/// Per-worker cap on the sets used to count distinct cases (the counts are then lower bounds).
const SET_CAP: usize = 1_500_000;

fn verif_dir() -> PathBuf {
    std::env::var("VERIF_DIR").map(PathBuf::from).unwrap_or_else(|_| PathBuf::from("/verif"))
}

pub fn run_seed(base: u64, prop: &str, index: u64) -> u64 {
    mix(&[base, hash_str(prop), index])
}

fn flag(args: &[String], name: &str) -> Option<String> {
    args.iter().position(|a| a == name).and_then(|i| args.get(i + 1).cloned())
}

fn install_quiet_panic_hook() {
    let verbose = std::env::var("VERIF_VERBOSE").is_ok();
    let default = std::panic::take_hook();
    std::panic::set_hook(Box::new(move |info| {
        let in_sim = crate::sched::Sched::current_tid().is_some();
        let name = std::thread::current().name().map(|s| s.to_string()).unwrap_or_default();
        let sim_thread = in_sim || name.starts_with("checker-") || name == "timeout";
        if verbose || !sim_thread {
            default(info);
        }
    }));
}

#[derive(Serialize, Deserialize, Default)]
struct WorkerOut {
    runs: u64,
    nontrivial: u64,
    counters: Counters,
    signatures: Vec<u64>,
    case_hashes: Vec<u64>,
    sim_time_ns: u64,
    steps: u64,
    violations: Vec<FoundViolation>,
    violation_counts: BTreeMap<String, u64>,
    samples: Vec<Value>,
}

#[derive(Serialize, Deserialize, Clone)]
struct FoundViolation {
    index: u64,
    seed: u64,
    violation: Violation,
    scenario: Value,
}

pub fn worker(args: &[String]) -> i32 {
    if args.len() < 6 {
        eprintln!("worker <PROP> <base> <k> <w> <n> <out>");
        return 2;
    }
    install_quiet_panic_hook();
    let prop = &args[0];
    let base: u64 = args[1].parse().unwrap();
    let k: u64 = args[2].parse().unwrap();
    let w: u64 = args[3].parse().unwrap();
    let n: u64 = args[4].parse().unwrap();
    let out_path = &args[5];
    let want_log = args.get(6).map(|s| s == "--log").unwrap_or(false);
    // Only one simulation thread runs at a time, so the whole process is pinned to one core: baton
    // passes then stay on-core instead of waking a thread on another (busy) core.
    pin_to_core(k);
    let mut out = WorkerOut::default();
    let mut sigs: BTreeSet<u64> = BTreeSet::new();
    let mut cases_seen: BTreeSet<u64> = BTreeSet::new();
    let mut log = Vec::new();
    let mut i = k;
    let mut done = 0u64;
    while i < n {
        let seed = run_seed(base, prop, i);
        crate::determinism_seam::reset(seed);
        let (rep, scenario): (RunReport, Value) = cases::run_case(prop, seed);
        out.runs += 1;
        if rep.nontrivial {
            out.nontrivial += 1;
            if sigs.len() < SET_CAP {
                sigs.insert(rep.signature);
            }
        }
        for h in &rep.case_hashes {
            if cases_seen.len() < SET_CAP {
                cases_seen.insert(*h);
            }
        }
        out.counters.merge(&rep.counters);
        out.sim_time_ns += rep.sim_time_ns;
        out.steps += rep.steps;
        // the unsimulated HTTP smoke runs of C19 use real sockets and real time: their probe counters
        // (replies that did not come) are not a function of the seed, so they take no part in the
        // determinism self-test
        let unsimulated = scenario.get("http").and_then(|h| h.as_bool()).unwrap_or(false);
        if want_log && !unsimulated {
            log.push(json!({"i": i, "seed": seed, "sig": rep.signature, "steps": rep.steps, "t": rep.sim_time_ns,
                "viol": rep.violations.iter().map(|v| v.class.clone()).collect::<Vec<_>>(),
                "counters": rep.counters}));
        }
        for v in &rep.violations {
            let key = format!("{}/{}", v.property, v.class);
            let cnt = out.violation_counts.entry(key).or_insert(0);
            *cnt += 1;
            if *cnt <= 2 && out.violations.len() < 40 {
                out.violations.push(FoundViolation { index: i, seed, violation: v.clone(), scenario: scenario.clone() });
            }
        }
        if out.samples.len() < 2 && rep.nontrivial {
            out.samples.push(json!({"run_index": i, "run_seed": seed, "case": cases::summary(prop, &scenario)}));
        }
        done += 1;
        if done % 50 == 0 {
            println!("P {}", done);
        }
        i += w;
    }
    out.signatures = sigs.into_iter().collect();
    out.case_hashes = cases_seen.into_iter().collect();
    if want_log {
        std::fs::write(format!("{}.log", out_path), serde_json::to_vec(&log).unwrap()).unwrap();
    }
    std::fs::write(out_path, serde_json::to_vec(&out).unwrap()).unwrap();
    println!("DONE {}", done);
    0
}

#[derive(Deserialize, Clone)]
struct KnownFinding {
    property: String,
    class: String,
    status: String,
    what: String,
    #[serde(default)]
    #[allow(dead_code)]
    commit: Option<String>,
}

fn load_known() -> Vec<KnownFinding> {
    let p = verif_dir().join("known_findings.json");
    match std::fs::read(&p) {
        Ok(b) => {
            let v: Value = serde_json::from_slice(&b).unwrap_or(Value::Null);
            serde_json::from_value(v.get("findings").cloned().unwrap_or(json!([]))).unwrap_or_default()
        }
        Err(_) => vec![],
    }
}

fn spawn_workers(prop: &str, base: u64, n: u64, workers: u64, tmp: &Path, log: bool) -> Result<Vec<WorkerOut>, String> {
    let exe = std::env::current_exe().map_err(|e| e.to_string())?;
    let mut children = Vec::new();
    let progress: Arc<Mutex<Instant>> = Arc::new(Mutex::new(Instant::now()));
    for k in 0..workers {
        let out = tmp.join(format!("w{}.json", k));
        let mut cmd = Command::new(&exe);
        cmd.arg("worker").arg(prop).arg(base.to_string()).arg(k.to_string()).arg(workers.to_string()).arg(n.to_string()).arg(&out);
        if log {
            cmd.arg("--log");
        }
        cmd.stdout(Stdio::piped()).stderr(Stdio::inherit());
        let mut child = cmd.spawn().map_err(|e| e.to_string())?;
        let so = child.stdout.take().unwrap();
        let pr = progress.clone();
        let t = std::thread::spawn(move || {
            for line in BufReader::new(so).lines() {
                if line.is_err() {
                    break;
                }
                *pr.lock().unwrap() = Instant::now();
            }
        });
        children.push((child, out, t));
    }
    // watchdog
    let stall_limit = Duration::from_secs(300);
    loop {
        let mut all_done = true;
        for (child, _, _) in children.iter_mut() {
            match child.try_wait() {
                Ok(Some(_)) => {}
                Ok(None) => all_done = false,
                Err(e) => return Err(e.to_string()),
            }
        }
        if all_done {
            break;
        }
        if progress.lock().unwrap().elapsed() > stall_limit {
            for (child, _, _) in children.iter_mut() {
                let _ = child.kill();
            }
            return Err("watchdog: no worker made progress for 300 s".into());
        }
        std::thread::sleep(Duration::from_millis(50));
    }
    let mut outs = Vec::new();
    for (mut child, out, t) in children {
        let status = child.wait().map_err(|e| e.to_string())?;
        let _ = t.join();
        if !status.success() {
            return Err(format!("worker exited with {:?}", status.code()));
        }
        let b = std::fs::read(&out).map_err(|e| format!("{}: {}", out.display(), e))?;
        outs.push(serde_json::from_slice::<WorkerOut>(&b).map_err(|e| e.to_string())?);
    }
    Ok(outs)
}

fn same_class(rep: &RunReport, v: &Violation) -> bool {
    rep.violations.iter().any(|x| x.property == v.property && x.class == v.class)
}

/// Greedy shrinking: keep a candidate when the same violation class persists.
fn shrink(prop: &str, scenario: &Value, v: &Violation, budget: usize) -> (Value, usize) {
    let mut cur = scenario.clone();
    let mut used = 0;
    let mut progress = true;
    while progress && used < budget {
        progress = false;
        for cand in cases::shrink_candidates(prop, &cur) {
            if used >= budget {
                break;
            }
            used += 1;
            crate::determinism_seam::reset(0);
            // a candidate may be an ill-formed scenario (e.g. ids of removed actors): a panic
            // while replaying it only means "not a valid simplification"
            let replayed = std::panic::catch_unwind(std::panic::AssertUnwindSafe(|| cases::replay(prop, &cand))).unwrap_or_else(|_| Err("panic".into()));
            match replayed {
                Ok(rep) if same_class(&rep, v) => {
                    cur = cand;
                    progress = true;
                    break;
                }
                _ => {}
            }
        }
    }
    (cur, used)
}

/// Every process that runs simulations is pinned to one core: baton passes stay on-core, and what
/// the code under test can learn about the machine (`available_parallelism`) is the same - one
/// core - in workers, while shrinking and in replays.
pub fn pin_to_core(k: u64) {
    unsafe {
        let ncpu = libc::sysconf(libc::_SC_NPROCESSORS_ONLN).max(1) as u64;
        let mut set: libc::cpu_set_t = std::mem::zeroed();
        libc::CPU_SET((k % ncpu) as usize, &mut set);
        let _ = libc::sched_setaffinity(0, std::mem::size_of::<libc::cpu_set_t>(), &set);
    }
}

pub fn replay(args: &[String]) -> i32 {
    install_quiet_panic_hook();
    pin_to_core(0);
    let Some(path) = args.first() else {
        eprintln!("replay <file>");
        return 2;
    };
    let b = match std::fs::read(path) {
        Ok(b) => b,
        Err(e) => {
            eprintln!("{}: {}", path, e);
            return 2;
        }
    };
    let v: Value = serde_json::from_slice(&b).unwrap();
    let prop = v["property"].as_str().unwrap_or("").to_string();
    let class = v["class"].as_str().unwrap_or("").to_string();
    crate::determinism_seam::reset(0);
    match cases::replay(&prop, &v["scenario"]) {
        Ok(rep) => {
            for x in &rep.violations {
                println!("replayed: property={} class={} {}", x.property, x.class, x.message);
            }
            if rep.violations.iter().any(|x| x.property == prop && x.class == class) {
                println!("VIOLATION property={} replay={}", prop, path);
                1
            } else {
                println!("not reproduced: no violation of class {} for {}", class, prop);
                0
            }
        }
        Err(e) => {
            eprintln!("replay error: {}", e);
            2
        }
    }
}

pub fn check(args: &[String]) -> i32 {
    install_quiet_panic_hook();
    let Some(prop) = args.first().cloned() else {
        eprintln!("check <PROP>");
        return 2;
    };
    let Some(info) = cases::info(&prop) else {
        eprintln!("unknown property {}", prop);
        return 2;
    };
    let tier = flag(args, "--tier").or_else(|| std::env::var("VERIF_TIER").ok()).unwrap_or_else(|| "quick".into());
    let tier = if tier == "thorough" { "thorough" } else { "quick" };
    let base: u64 = std::env::var("VERIF_SEED").ok().and_then(|s| s.parse().ok()).unwrap_or(DEFAULT_SEED);
    let n: u64 = flag(args, "--runs").and_then(|s| s.parse().ok()).unwrap_or(if tier == "quick" { info.runs.0 } else { info.runs.1 });
    let workers: u64 = flag(args, "--workers").and_then(|s| s.parse().ok()).unwrap_or(16).min(n.max(1));
    let t0 = Instant::now();
    let tmp = std::env::temp_dir().join(format!("dsim-{}-{}", prop, std::process::id()));
    let _ = std::fs::create_dir_all(&tmp);
    let outs = match spawn_workers(&prop, base, n, workers, &tmp, false) {
        Ok(o) => o,
        Err(e) => {
            eprintln!("HARNESS-ERROR property={} {}", prop, e);
            let _ = std::fs::remove_dir_all(&tmp);
            return 2;
        }
    };
    let _ = std::fs::remove_dir_all(&tmp);
    // aggregate
    let mut counters = Counters::default();
    let mut sigs: BTreeSet<u64> = BTreeSet::new();
    let mut case_hashes: BTreeSet<u64> = BTreeSet::new();
    let (mut runs, mut nontrivial, mut sim_ns, mut steps) = (0u64, 0u64, 0u64, 0u64);
    let mut found: Vec<FoundViolation> = Vec::new();
    let mut vcounts: BTreeMap<String, u64> = BTreeMap::new();
    let mut samples = Vec::new();
    for o in outs {
        runs += o.runs;
        nontrivial += o.nontrivial;
        sim_ns += o.sim_time_ns;
        steps += o.steps;
        counters.merge(&o.counters);
        sigs.extend(o.signatures);
        case_hashes.extend(o.case_hashes);
        found.extend(o.violations);
        for (k, v) in o.violation_counts {
            *vcounts.entry(k).or_insert(0) += v;
        }
        if samples.len() < 3 {
            samples.extend(o.samples.into_iter().take(1));
        }
    }
    found.sort_by_key(|f| f.index);
    let known = load_known();
    let mut reported_known: BTreeSet<String> = BTreeSet::new();
    let mut unknown_classes: BTreeMap<String, FoundViolation> = BTreeMap::new();
    for f in &found {
        let key = format!("{}/{}", f.violation.property, f.violation.class);
        if let Some(k) = known.iter().find(|k| k.status == "known" && k.property == f.violation.property && k.class == f.violation.class) {
            if reported_known.insert(key.clone()) {
                println!("KNOWN-FINDING: property={} class={} {} (seen {} times; e.g. run seed {}: {})", k.property, k.class, k.what, vcounts.get(&key).cloned().unwrap_or(0), f.seed, f.violation.message);
            }
        } else {
            unknown_classes.entry(key).or_insert_with(|| f.clone());
        }
    }
    let mut exit_code = 0;
    let mut violation_files = Vec::new();
    let replays_dir = verif_dir().join("replays");
    pin_to_core(0); // shrinking re-executes scenarios in this process: same machine view as the workers
    for (key, f) in unknown_classes.iter().take(4) {
        let _ = std::fs::create_dir_all(&replays_dir);
        // large artefacts (wide graphs) cost seconds per re-execution: fewer shrink attempts
        let shrink_budget = if serde_json::to_vec(&f.scenario).map(|b| b.len()).unwrap_or(0) > 200_000 { 20 } else { 200 };
        let (small, tried) = shrink(&prop, &f.scenario, &f.violation, shrink_budget);
        // message of the shrunk scenario
        crate::determinism_seam::reset(0);
        let msg = cases::replay(&prop, &small)
            .ok()
            .and_then(|r| r.violations.into_iter().find(|x| x.property == f.violation.property && x.class == f.violation.class))
            .map(|x| x.message)
            .unwrap_or_else(|| f.violation.message.clone());
        let file = replays_dir.join(format!("{}-{}-{}.json", prop, sanitize(&f.violation.class), f.seed));
        let doc = json!({
            "property": f.violation.property, "class": f.violation.class, "message": msg,
            "run_seed": f.seed, "run_index": f.index, "verif_seed": base, "tier": tier,
            "shrink_attempts": tried, "scenario": small, "original_scenario": f.scenario,
            "replay_cmd": format!("./check --replay {}", file.display()),
        });
        std::fs::write(&file, serde_json::to_vec_pretty(&doc).unwrap()).unwrap();
        // the replay must reproduce in a fresh process
        let exe = std::env::current_exe().unwrap();
        let st = Command::new(exe).arg("replay").arg(&file).stdout(Stdio::null()).stderr(Stdio::null()).status();
        match st.map(|s| s.code()) {
            Ok(Some(1)) => {
                println!("VIOLATION property={} replay={}", prop, file.display());
                println!("  class={} count={} {}", f.violation.class, vcounts.get(key).cloned().unwrap_or(0), msg);
                violation_files.push(file.display().to_string());
                exit_code = 1;
            }
            other => {
                eprintln!("HARNESS-ERROR property={} violation {} did not reproduce from its replay file ({:?}): {}", prop, key, other, file.display());
                if exit_code == 0 {
                    exit_code = 2;
                }
            }
        }
    }
    let wall = t0.elapsed().as_secs_f64();
    // evidence
    let mut faults = BTreeMap::new();
    let mut probes = BTreeMap::new();
    let mut other = BTreeMap::new();
    for (k, v) in &counters.0 {
        if let Some(f) = k.strip_prefix("fault_") {
            faults.insert(f.to_string(), *v);
        } else if let Some(p) = k.strip_prefix("probe_") {
            probes.insert(p.to_string(), *v);
        } else {
            other.insert(k.clone(), *v);
        }
    }
    // distinct non-trivial cases = distinct run signatures among the non-trivial runs (a lower bound:
    // different scenarios with the same signature count once)
    let distinct = sigs.len() as u64;
    let evidence = json!({
        "property_id": prop,
        "tier": tier,
        "seed": base,
        "level": "exploration",
        "coverage": {
            "evaluations": runs,
            "distinct_nontrivial": distinct,
            "nontrivial_runs": nontrivial,
            "rule": info.rule,
            "oracle": info.oracle,
            "samples": samples,
            "simulated_runs": runs,
            "runs_per_hour": if wall > 0.0 { (runs as f64 / wall * 3600.0) as u64 } else { 0 },
            "seeds_per_hour": if wall > 0.0 { (runs as f64 / wall * 3600.0) as u64 } else { 0 },
            "simulated_time_s": sim_ns as f64 / 1e9,
            "scheduler_steps": steps,
            "distinct_interleavings_measure": "hash of the sequence of (thread, hook event, object) and scheduling decisions of the run (S1/S3); hash of the sequence of visited canonical states (S2/S4)",
            "distinct_interleavings": sigs.len(),
            "distinct_states_or_histories_reached": case_hashes.len(),
            "distinct_counts_are_lower_bounds_when_capped_at_per_worker": SET_CAP,
            "fault_kinds_fired": faults,
            "probes": probes,
            "counters": other,
            "bounds": info.bounds,
            "components_real": info.real,
            "components_stubbed": info.stub,
            "violation_classes_seen": vcounts,
            "known_findings_reported": reported_known.iter().collect::<Vec<_>>(),
            "replay_files": violation_files,
            "workers": workers,
            "exhaustive": false,
        },
        "assumptions": [
            "sampled search: a clean batch is evidence over the sampled seeds, not proof",
            "scheduling granularity is the hooked operation (mutex, condvar, DashMap/DashSet call, atomic, channel, sleep, clock read); interleavings inside those primitives and memory-ordering effects are not explored",
            "the independent reference (graph search / reference stepper / brute-force definition) is trusted",
        ],
        "wall_s": wall,
        "violations": if exit_code == 1 { unknown_classes.len() as i64 } else { 0 },
    });
    let ev_dir = verif_dir().join("evidence");
    let _ = std::fs::create_dir_all(&ev_dir);
    std::fs::write(ev_dir.join(format!("{}.json", prop)), serde_json::to_vec_pretty(&evidence).unwrap()).unwrap();
    println!(
        "{} {}: {} runs ({} non-trivial, {} distinct), {:.1}s wall, {:.1}s simulated, violations: {}, known findings: {}",
        prop, tier, runs, nontrivial, distinct, wall, sim_ns as f64 / 1e9, unknown_classes.len(), reported_known.len()
    );
    exit_code
}

fn sanitize(s: &str) -> String {
    s.chars().map(|c| if c.is_ascii_alphanumeric() || c == '-' { c } else { '_' }).collect()
}

/// Every run twice, in different worker processes and with different worker counts; per-run logs
/// must be identical.
pub fn selftest_determinism(args: &[String]) -> i32 {
    let n: u64 = flag(args, "--runs").and_then(|s| s.parse().ok()).unwrap_or(300);
    let props: Vec<String> = match flag(args, "--props") {
        Some(p) => p.split(',').map(|s| s.to_string()).collect(),
        None => cases::PROPS.iter().map(|p| p.id.to_string()).collect(),
    };
    let base: u64 = std::env::var("VERIF_SEED").ok().and_then(|s| s.parse().ok()).unwrap_or(DEFAULT_SEED);
    let mut bad = 0;
    for prop in &props {
        let mut logs: Vec<BTreeMap<u64, Value>> = Vec::new();
        for (round, workers) in [(0u32, 16u64), (1, 5)] {
            let tmp = std::env::temp_dir().join(format!("dsim-det-{}-{}-{}", prop, std::process::id(), round));
            let _ = std::fs::create_dir_all(&tmp);
            if let Err(e) = spawn_workers(prop, base, n, workers, &tmp, true) {
                eprintln!("HARNESS-ERROR selftest {}: {}", prop, e);
                let _ = std::fs::remove_dir_all(&tmp);
                return 2;
            }
            let mut m = BTreeMap::new();
            for k in 0..workers {
                let b = std::fs::read(tmp.join(format!("w{}.json.log", k))).unwrap();
                let v: Vec<Value> = serde_json::from_slice(&b).unwrap();
                for e in v {
                    m.insert(e["i"].as_u64().unwrap(), e);
                }
            }
            let _ = std::fs::remove_dir_all(&tmp);
            logs.push(m);
        }
        let mut diffs = 0;
        for (i, a) in &logs[0] {
            if logs[1].get(i) != Some(a) {
                diffs += 1;
                if diffs <= 3 {
                    eprintln!("NONDETERMINISM {} run {}:\n  {}\n  {}", prop, i, a, logs[1].get(i).unwrap_or(&Value::Null));
                }
            }
        }
        println!("determinism {}: {} runs x2 (16 and 5 workers), {} differences", prop, logs[0].len(), diffs);
        bad += diffs;
    }
    if bad > 0 {
        2
    } else {
        0
    }
}
