//! Dispatch from property id to the subsystem that decides it.

use crate::common::RunReport;
use serde_json::Value;

pub struct PropInfo {
    pub id: &'static str,
    pub subsystem: &'static str,
    /// (quick runs, thorough runs)
    pub runs: (u64, u64),
    pub rule: &'static str,
    pub oracle: &'static str,
    pub real: &'static [&'static str],
    pub stub: &'static [&'static str],
    pub bounds: &'static str,
}

const S1_REAL: &[&str] = &[
    "stateright CheckerBuilder::spawn_bfs/spawn_dfs/spawn_on_demand/spawn_simulation and their worker loops",
    "job_market::JobBroker (mutex, condvar, work splitting, timeout thread)",
    "Checker::join/discoveries/is_done/assert_properties, Path reconstruction, HasDiscoveries::matches",
    "DashMap/DashSet, atomics, mpsc channels (real data structures; the scheduler decides only who runs)",
];
const S1_STUB: &[&str] = &[
    "OS thread scheduling (baton scheduler: one simulation thread runs at a time, chosen from the run seed)",
    "SystemTime/Instant/sleep (virtual clock)",
    "the model under check (generated transition graphs)",
];
const S1_BOUNDS: &str = "<= 60 states (65536 for counter-tail timeout models; wide fans of 2201-16601 states in one C01/C13 run in 2000), out-degree <= 5 (wide fans: up to 8300), <= 3 initial states, <= 5 properties (62-79 in one C02/C03/C11/C12 model in 40), 1-4 worker threads (C05: up to 6), block size in {1,2,3,5,8,64,1500}; a quarter of the C02/C03/C05/C12 runs wait through join_and_report / report";

const S2_REAL: &[&str] = &[
    "stateright ActorModel::init_states/actions/next_state/process_commands",
    "Network (all three kinds), Timers, RandomChoices, ActorModelState (Hash/Eq/Representative), Envelope",
    "history hooks record_msg_in/record_msg_out, lossy_network, max_crashes",
];
const S2_STUB: &[&str] = &[
    "the actors (table-driven script actors generated from the run seed)",
    "the choice of which enabled action happens next (seeded, fault-biased walker) - no threads or clocks are involved in the actor model",
];
const S2_BOUNDS: &str = "1-4 actors, <= 4 local states, <= 4 message tags, <= 3 timers, <= 3 random values, handler outputs <= 3 commands (one in 60: 21-48), initial networks <= 10 envelopes (C07, one in 25: 22-45), walks <= 80 steps, crash budget 0-2 (C06/C09, one in 12: unlimited), history capped at 24 events";

const S4_REAL: &[&str] = &[
    "semantics::LinearizabilityTester and SequentialConsistencyTester (on_invoke/on_return/is_consistent/serialized_history, Clone)",
    "SequentialSpec implementations Register, WORegister, Vec (invoke, is_valid_step, is_valid_history)",
];
const S4_STUB: &[&str] = &[
    "the concurrent system producing the history: simulated client threads and a simulated shared object with seeded linearization points and injected faults (stale read, lost write, wrong return, duplicated reply, reply without request, re-invocation without waiting)",
];
const S4_BOUNDS: &str = "1-4 client threads, <= 8 operations, <= 4 in flight, <= 40 scheduling steps per history; specs: register, write-once register, vec (stack), test-and-set (default is_valid_step)";

pub const PROPS: &[PropInfo] = &[
    PropInfo { id: "C08", subsystem: "s4", runs: (300000, 12000000), rule: "one case = one concurrent history produced by a seeded schedule of simulated clients against a (possibly faulty) simulated object, fed event by event to the real tester; invoke/return events are stamped with their global sequence number; distinct = distinct (spec, initial value, event list); non-trivial = >= 3 events", oracle: "after every event: is_consistent() == exhaustive search of the definition (all orders of the completed operations plus any subset of in-flight ones, per-thread order, real-time precedence, legal for the spec); serialized_history() is such an order; ill-formed events give Err and stay Err/false/None", real: S4_REAL, stub: S4_STUB, bounds: S4_BOUNDS },
    PropInfo { id: "C14", subsystem: "s4", runs: (400000, 20000000), rule: "as C08, both testers fed the same events", oracle: "as C08 without the real-time filter; every prefix accepted by the linearizability tester is accepted by the sequential-consistency tester; a clone taken before each event is unchanged after the original moved on", real: S4_REAL, stub: S4_STUB, bounds: S4_BOUNDS },
    PropInfo { id: "C17", subsystem: "s3", runs: (2400, 200000), rule: "one case = 1-4 instrumented script actors run by the real actor::spawn() loop (one simulation thread each) on virtual UDP sockets bound to seeded IPv4 addresses, under the scheduler and the virtual clock, with per-run rates of datagram drop, duplication, delay/reordering, send and receive errors, junk / empty / foreign datagrams injected by an outside peer, stalls; distinct = distinct hash of scheduling decisions and hook events; non-trivial = at least two handler invocations", oracle: "merged handler log vs socket-seam log: on_start first and once; every on_msg matches (injectively) a datagram already delivered to that socket with the deserialized payload and Id::from(sender address); sends of a handler appear on its socket in order before its next handler; a timer fires only while armed and no earlier than arming + range.start; state threading; Id <-> SocketAddrV4 round trips", real: &["actor::spawn() event loop, on_command, timer bookkeeping (next_interrupts)", "Id <-> SocketAddrV4 conversions", "serde_json codec through the serialize/deserialize fn pointers", "crossbeam scoped actor threads (real threads, scheduled by the baton scheduler)"], stub: &["UdpSocket (virtual UDP with fault injection)", "Instant::now / read timeouts (virtual clock)", "rand::thread_rng in spawn.rs (seeded)", "OS scheduling of the actor threads"], bounds: "1-4 actors + 1 outside peer, <= 8 injected datagrams, virtual horizon 0.1-2.5 s, network latency 0.2-51 ms, timer ranges 1-800 ms, step budget 40k" },
    PropInfo { id: "C18", subsystem: "s4", runs: (300000, 15000000), rule: "spec half: the operation sequence of a generated history is applied to the reference object; every step is checked with its actual return and a perturbed one; harness half: seeded walks of register-harness actor systems (RegisterActor / WORegisterActor clients, servers answering each request at most once) over all network kinds", oracle: "is_valid_step(op, r) == (invoke(op) == r) and equal object state after a valid step; is_valid_history == invoking from the initial object; per client at most one outstanding request with a fresh id; the recorded tester equals a shadow tester fed with exactly the client-visible sends and accepted replies, and never reports an ill-formed history", real: S4_REAL, stub: S4_STUB, bounds: S4_BOUNDS },
    PropInfo { id: "C04", subsystem: "s2", runs: (100000, 5000000), rule: "one case = one seeded fault-heavy walk of a generated actor system; every reached state, a perturbed rebuild of it (shuffled insertion order, other hasher keys, spare capacity, remove+reinsert) and its neighbours (crash flag flipped, timer/choice moved to the adjacent actor, message removed) enter a pool together with container families (sets/maps side by side, nested, Vec<Timers>, VectorClock with trailing zeros, DenseNatMap); distinct = distinct hash of the sequence of actions taken (distinct state fingerprints reached are reported separately); non-trivial = walk of >= 2 steps", oracle: "equal canonical dump => equal fingerprint; different dump => different sequence of typed Hasher calls; == <=> equal dump", real: S2_REAL, stub: S2_STUB, bounds: S2_BOUNDS },
    PropInfo { id: "C06", subsystem: "s2", runs: (200000, 10000000), rule: "one case = one seeded walk (<= 80 steps) of a generated actor system in lockstep with the reference stepper; distinct = distinct hash of the sequence of actions taken (distinct state fingerprints reached are reported separately); non-trivial = >= 2 steps taken", oracle: "at every step the set of effective (action, successor) pairs of the real model equals the reference's, component by component (actor state, network, timers, choices, crash flags, history order)", real: S2_REAL, stub: S2_STUB, bounds: S2_BOUNDS },
    PropInfo { id: "C07", subsystem: "s2", runs: (200000, 10000000), rule: "as C06 with traffic-heavy systems: repeated identical messages, several per flow, initial network contents, drops and redeliveries", oracle: "network content == reference flows/multiset/set after every step; deliverable set, drop offers, len(), iter_all() (bounded consumption) and iter_deliverable() agree with the content", real: S2_REAL, stub: S2_STUB, bounds: S2_BOUNDS },
    PropInfo { id: "C09", subsystem: "s2", runs: (30000, 1500000), rule: "as C06 with crash budget 1-2 and crashes biased to land right after a send to the victim, with timers armed and choices pending; plus real BFS/DFS runs on small actor systems compared with the reference reachable set", oracle: "crash offered <=> actor up and fewer than k down; crash clears timers/choices and sets the flag only; no step of a crashed actor is ever effective; deliveries to it leave the message in place; the checker visits exactly the reference's reachable dumps (crash configurations are distinct)", real: S2_REAL, stub: S2_STUB, bounds: S2_BOUNDS },
    PropInfo { id: "C15", subsystem: "s2", runs: (150000, 8000000), rule: "one case = one seeded lockstep walk (<= 60 steps) of a bare actor system and the same system wrapped in an adapter (Choice<A,Never>, Choice<A1,A2> in L/R positions, three-level nesting, RegisterActor::Server, WORegisterActor::Server, Vec client vs reference client), actors using messages, timers and random choices; distinct = distinct walk signatures; non-trivial = >= 2 lockstep steps", oracle: "at every step the effective steps of both systems correspond one to one and the successor states are equal modulo the wrapper constructor (actor states, network, timers, choices, crash flags)", real: &["Choice<A,Never>, Choice<A1,A2> Actor impls", "RegisterActor::Server / WORegisterActor::Server forwarding", "impl Actor for Vec<(Id,Msg)>", "ActorModel stepping both systems"], stub: S2_STUB, bounds: S2_BOUNDS },
    PropInfo { id: "C16", subsystem: "s2", runs: (200000, 10000000), rule: "one case = 2-3 link-wrapped actors (logging receivers, some ignoring messages in some states) sending 1-7 uniquely numbered messages to 1-2 peers over a duplicating / non-duplicating / ordered network, lossy or not; a seeded walk of <= 70 steps chooses deliveries, drops and resend-timer firings, followed by a quiescence phase (no drops, fair deliveries and resends); distinct = distinct walk signatures; non-trivial = >= 3 steps", oracle: "at every state, per (sender, receiver): the sequence handed to the wrapped actor is a prefix of the sequence sent to that peer; a message not yet handed over is still pending acknowledgement; when nothing is pending for that receiver the sequences are equal", real: &["ordered_reliable_link::ActorWrapper (on_start/on_msg/on_timeout, process_output, sequencers, acks, resend)", "ActorModel stepping, Network (all kinds), lossy drops"], stub: &["the wrapped actors (scripted senders / logging receivers)", "the choice of which delivery, drop or resend happens next (seeded walker)"], bounds: "2-3 actors, <= 7 messages per sender, walks <= 70 + 40 steps" },
    PropInfo { id: "C10", subsystem: "s2", runs: (30000, 1500000), rule: "S2 half: every state reached by a seeded walk is passed to representative(); S1 half: DFS with and without symmetry on symmetric process models under the scheduler", oracle: "representative() == the state permuted (actor order, envelope endpoints, ids inside messages/history/local state, timers, crash flags, choices) by the stable argsort of the actor states, computed by harness code", real: S2_REAL, stub: S2_STUB, bounds: S2_BOUNDS },
    PropInfo { id: "C01", subsystem: "s1", runs: (100000, 4000000), rule: "one case = one generated (graph model, checker configuration, schedule seed) executed by the real checker under the deterministic scheduler; distinct = distinct hash of the sequence of scheduling decisions and hook events; non-trivial = the run evaluated at least one state and took >= 30 scheduling steps (or > 2 context switches)", oracle: "visitor multiset == independent reachability set, each state once, visitor paths re-executed on the graph, unique_state_count == |reachable|, state_count >= unique", real: S1_REAL, stub: S1_STUB, bounds: S1_BOUNDS },
    PropInfo { id: "C02", subsystem: "s1", runs: (80000, 3000000), rule: "as C01 with 1-5 always/sometimes(/eventually) properties labelled on the states", oracle: "discovery <=> witness exists in the independent reachable set; assert_properties/is_done agree", real: S1_REAL, stub: S1_STUB, bounds: S1_BOUNDS },
    PropInfo { id: "C03", subsystem: "s1", runs: (100000, 4000000), rule: "as C01 over all five strategies, finish conditions, targets, depth limits, timeouts", oracle: "every path of discoveries() after join re-executed on the graph; last state witnesses; eventually paths never satisfy and are maximal (or close a cycle, simulation only)", real: S1_REAL, stub: S1_STUB, bounds: S1_BOUNDS },
    PropInfo { id: "C05", subsystem: "s1", runs: (40000, 2000000), rule: "as C01 with 2-4 workers, block sizes 1-8, all scheduling policies, panics in model code, timeouts; plus the job-market facade workload", oracle: "no deadlock, termination within the step budget, same evaluated set and verdicts as the single-threaded run, no state evaluated twice or lost, a worker panic surfaces from join", real: S1_REAL, stub: S1_STUB, bounds: S1_BOUNDS },
    PropInfo { id: "C11", subsystem: "s1", runs: (100000, 4000000), rule: "as C01 with eventually-properties on forests and general graphs", oracle: "reported => a maximal never-satisfying in-boundary path exists (reference graph search); on forests with completed exhaustive runs also <=", real: S1_REAL, stub: S1_STUB, bounds: S1_BOUNDS },
    PropInfo { id: "C12", subsystem: "s1", runs: (10000, 500000), rule: "as C01 over the cross product of finish condition x targets x depth x timeout x threads x strategy, with virtual-clock timeouts, wall-clock jumps and counter-tail models", oracle: "HasDiscoveries::matches == reference predicate; early stop justified; target and depth honoured; after timeout expiry (faults stopped) join returns within a bounded number of fair steps; unexpired timeout changes nothing and nobody blocks on a lock whose owner sleeps; seed replays first trace", real: S1_REAL, stub: S1_STUB, bounds: S1_BOUNDS },
    PropInfo { id: "C19", subsystem: "s1x", runs: (40000, 2000000), rule: "one case = a generated graph model checked by the real on-demand checker (1-3 workers, block sizes 1-1500) behind the Explorer's request handlers (called directly, without the HTTP server), with a seeded script of 1-10 requests (states for valid / mutated / unparsable fingerprint paths, status, check_fingerprint for pending and bogus states) issued by a simulated browser thread between quiescent points while 0-2 other browser threads poll status, then run-to-completion; plus Path API calls on a reference walk; distinct = distinct hash of scheduling decisions and hook events; non-trivial = at least one state evaluated or >= 30 steps", oracle: "states lists exactly the model's actions at the final state in order with successor state and fingerprint (ignored actions without); 404 <=> the sequence denotes no execution; status counts lie between the checker's counts before and after, every property path decodes to a genuine witness; a requested pending state is evaluated and its successors become generated; after run-to-completion is_done and evaluated set / verdicts equal the reference; from_actions / encode / into_* / from_fingerprints / final_state agree with the reference walk and reject non-executions", real: S1_REAL, stub: &["OS thread scheduling, clocks", "tiny_http server and the routing match (the handlers behind the routes are called directly; one run in 500 instead starts the real server on a loopback port and speaks HTTP to it, outside the simulation - counters http_*)", "ui/app.js (never executed)", "the model under check (generated graphs)"], bounds: "<= 30 states, 1-3 workers, <= 10 requests, <= 2 polling browser threads; HTTP smoke runs: the same models, 7 routing requests, the states endpoint along the reference walk and three mutations of it, run-to-completion, status" },
    PropInfo { id: "C13", subsystem: "s1", runs: (150000, 6000000), rule: "single-worker BFS on generated graphs with every block size", oracle: "visit depths non-decreasing and equal to the reference shortest distance; witness length == shortest distance to a witnessing state", real: S1_REAL, stub: S1_STUB, bounds: S1_BOUNDS },
];

pub fn info(prop: &str) -> Option<&'static PropInfo> {
    PROPS.iter().find(|p| p.id == prop)
}

pub fn run_case(prop: &str, seed: u64) -> (RunReport, Value) {
    if prop == "C05" && seed % 3 == 0 {
        // the job market on its own, driven by synthetic workers
        return crate::s1::market::run_case(seed);
    }
    if (prop == "C10" && seed % 4 == 0) || (prop == "C02" && seed % 6 == 0) || (prop == "C03" && seed % 8 == 0) || (prop == "C12" && seed % 8 == 0) || (prop == "C11" && seed % 8 == 0) {
        // checker half: DFS with / without symmetry on symmetric process models
        return crate::s1::symmetry::run_case(prop, seed);
    }
    if prop == "C08" && seed % 5 == 0 {
        // from the inside: single-copy register systems must be accepted
        return crate::s2::run_case(prop, seed);
    }
    if prop == "C18" {
        // two halves: reference objects (S4) and register-harness systems (S2)
        return if seed % 2 == 0 { crate::s4::run_case(prop, seed) } else { crate::s2::run_case(prop, seed) };
    }
    match info(prop).map(|i| i.subsystem) {
        Some("s1") => crate::s1::run_case(prop, seed),
        Some("s1x") => crate::s1::explorer::run_case(seed),
        Some("s2") => crate::s2::run_case(prop, seed),
        Some("s4") => crate::s4::run_case(prop, seed),
        Some("s3") => crate::s3::run_case(prop, seed),
        _ => panic!("unknown property {}", prop),
    }
}

pub fn replay(prop: &str, scenario: &Value) -> Result<RunReport, String> {
    if (prop == "C10" || prop == "C02" || prop == "C03" || prop == "C12" || prop == "C11") && scenario.get("spec").is_some() {
        return crate::s1::symmetry::replay(prop, scenario);
    }
    if prop == "C05" && scenario.get("workers").is_some() {
        return crate::s1::market::replay(scenario);
    }
    if prop == "C18" || prop == "C08" {
        return if scenario.get("proto").is_some() { crate::s2::replay(prop, scenario) } else { crate::s4::replay(prop, scenario) };
    }
    match info(prop).map(|i| i.subsystem) {
        Some("s1") => crate::s1::replay(prop, scenario),
        Some("s1x") => crate::s1::explorer::replay(scenario),
        Some("s2") => crate::s2::replay(prop, scenario),
        Some("s4") => crate::s4::replay(prop, scenario),
        Some("s3") => crate::s3::replay(prop, scenario),
        _ => Err(format!("unknown property {}", prop)),
    }
}

pub fn summary(prop: &str, scenario: &Value) -> Value {
    if (prop == "C10" || prop == "C02" || prop == "C03" || prop == "C12" || prop == "C11") && scenario.get("spec").is_some() {
        return crate::s1::symmetry::summary(scenario);
    }
    if prop == "C05" && scenario.get("workers").is_some() {
        return crate::s1::market::summary(scenario);
    }
    if prop == "C18" || prop == "C08" {
        return if scenario.get("proto").is_some() { crate::s2::summary(scenario) } else { crate::s4::summary(scenario) };
    }
    match info(prop).map(|i| i.subsystem) {
        Some("s1") => crate::s1::summary(scenario),
        Some("s1x") => crate::s1::explorer::summary(scenario),
        Some("s2") => crate::s2::summary(scenario),
        Some("s4") => crate::s4::summary(scenario),
        Some("s3") => crate::s3::summary(scenario),
        _ => Value::Null,
    }
}

pub fn shrink_candidates(prop: &str, scenario: &Value) -> Vec<Value> {
    if (prop == "C10" || prop == "C02" || prop == "C03" || prop == "C12" || prop == "C11") && scenario.get("spec").is_some() {
        return crate::s1::symmetry::shrink_candidates(scenario);
    }
    if prop == "C05" && scenario.get("workers").is_some() {
        return crate::s1::market::shrink_candidates(scenario);
    }
    if prop == "C18" || prop == "C08" {
        return if scenario.get("proto").is_some() { crate::s2::shrink_candidates(scenario) } else { crate::s4::shrink_candidates(scenario) };
    }
    match info(prop).map(|i| i.subsystem) {
        Some("s1") => crate::s1::shrink_candidates(scenario),
        Some("s1x") => crate::s1::explorer::shrink_candidates(scenario),
        Some("s2") => crate::s2::shrink_candidates(scenario),
        Some("s4") => crate::s4::shrink_candidates(scenario),
        Some("s3") => crate::s3::shrink_candidates(scenario),
        _ => vec![],
    }
}
