//! Dispatch from property id to the subsystem that decides it.

use crate::common::RunReport;
use serde_json::Value;

pub struct PropInfo {
    pub id: &'static str,
    pub subsystem: &'static str,
    /// (quick runs, thorough runs)
    pub runs: (u64, u64),
    pub rule: &'static str,
    pub oracle: &'static str,
    pub real: &'static [&'static str],
    pub stub: &'static [&'static str],
    pub bounds: &'static str,
}

const S1_REAL: &[&str] = &[
    "stateright CheckerBuilder::spawn_bfs/spawn_dfs/spawn_on_demand/spawn_simulation and their worker loops",
    "job_market::JobBroker (mutex, condvar, work splitting, timeout thread)",
    "Checker::join/discoveries/is_done/assert_properties, Path reconstruction, HasDiscoveries::matches",
    "DashMap/DashSet, atomics, mpsc channels (real data structures; the scheduler decides only who runs)",
];
const S1_STUB: &[&str] = &[
    "OS thread scheduling (baton scheduler: one simulation thread runs at a time, chosen from the run seed)",
    "SystemTime/Instant/sleep (virtual clock)",
    "the model under check (generated transition graphs)",
];
const S1_BOUNDS: &str = "<= 60 states (65536 for counter-tail timeout models), out-degree <= 5, <= 3 initial states, <= 5 properties, 1-4 worker threads, block size in {1,2,3,5,8,64,1500}";

pub const PROPS: &[PropInfo] = &[
    PropInfo { id: "C01", subsystem: "s1", runs: (6_000, 400_000), rule: "one case = one generated (graph model, checker configuration, schedule seed) executed by the real checker under the deterministic scheduler; distinct = distinct hash of the sequence of scheduling decisions and hook events; non-trivial = the run evaluated at least one state and took >= 30 scheduling steps (or > 2 context switches)", oracle: "visitor multiset == independent reachability set, each state once, visitor paths re-executed on the graph, unique_state_count == |reachable|, state_count >= unique", real: S1_REAL, stub: S1_STUB, bounds: S1_BOUNDS },
    PropInfo { id: "C02", subsystem: "s1", runs: (6_000, 400_000), rule: "as C01 with 1-5 always/sometimes(/eventually) properties labelled on the states", oracle: "discovery <=> witness exists in the independent reachable set; assert_properties/is_done agree", real: S1_REAL, stub: S1_STUB, bounds: S1_BOUNDS },
    PropInfo { id: "C03", subsystem: "s1", runs: (6_000, 400_000), rule: "as C01 over all five strategies, finish conditions, targets, depth limits, timeouts", oracle: "every path of discoveries() after join re-executed on the graph; last state witnesses; eventually paths never satisfy and are maximal (or close a cycle, simulation only)", real: S1_REAL, stub: S1_STUB, bounds: S1_BOUNDS },
    PropInfo { id: "C05", subsystem: "s1", runs: (5_000, 300_000), rule: "as C01 with 2-4 workers, block sizes 1-8, all scheduling policies, panics in model code, timeouts; plus the job-market facade workload", oracle: "no deadlock, termination within the step budget, same evaluated set and verdicts as the single-threaded run, no state evaluated twice or lost, a worker panic surfaces from join", real: S1_REAL, stub: S1_STUB, bounds: S1_BOUNDS },
    PropInfo { id: "C11", subsystem: "s1", runs: (6_000, 400_000), rule: "as C01 with eventually-properties on forests and general graphs", oracle: "reported => a maximal never-satisfying in-boundary path exists (reference graph search); on forests with completed exhaustive runs also <=", real: S1_REAL, stub: S1_STUB, bounds: S1_BOUNDS },
    PropInfo { id: "C12", subsystem: "s1", runs: (5_000, 300_000), rule: "as C01 over the cross product of finish condition x targets x depth x timeout x threads x strategy, with virtual-clock timeouts, wall-clock jumps and counter-tail models", oracle: "HasDiscoveries::matches == reference predicate; early stop justified; target and depth honoured; after timeout expiry (faults stopped) join returns within a bounded number of fair steps; unexpired timeout changes nothing and nobody blocks on a lock whose owner sleeps; seed replays first trace", real: S1_REAL, stub: S1_STUB, bounds: S1_BOUNDS },
    PropInfo { id: "C13", subsystem: "s1", runs: (6_000, 400_000), rule: "single-worker BFS on generated graphs with every block size", oracle: "visit depths non-decreasing and equal to the reference shortest distance; witness length == shortest distance to a witnessing state", real: S1_REAL, stub: S1_STUB, bounds: S1_BOUNDS },
];

pub fn info(prop: &str) -> Option<&'static PropInfo> {
    PROPS.iter().find(|p| p.id == prop)
}

pub fn run_case(prop: &str, seed: u64) -> (RunReport, Value) {
    match info(prop).map(|i| i.subsystem) {
        Some("s1") => crate::s1::run_case(prop, seed),
        _ => panic!("unknown property {}", prop),
    }
}

pub fn replay(prop: &str, scenario: &Value) -> Result<RunReport, String> {
    match info(prop).map(|i| i.subsystem) {
        Some("s1") => crate::s1::replay(prop, scenario),
        _ => Err(format!("unknown property {}", prop)),
    }
}

pub fn summary(prop: &str, scenario: &Value) -> Value {
    match info(prop).map(|i| i.subsystem) {
        Some("s1") => crate::s1::summary(scenario),
        _ => Value::Null,
    }
}

pub fn shrink_candidates(prop: &str, scenario: &Value) -> Vec<Value> {
    match info(prop).map(|i| i.subsystem) {
        Some("s1") => crate::s1::shrink_candidates(scenario),
        _ => vec![],
    }
}
