//! S2 — actor systems step by step.

pub mod checker_level;
pub mod identity;
pub mod lockstep;
pub mod orl;
pub mod plans;
pub mod reference;
pub mod regharness;
pub mod script;
pub mod walk;

use crate::common::{Counters, RunReport, Violation};
use crate::rng::Rng;
use reference::*;
use script::*;
use serde_json::Value;
use stateright::actor::Id;
use stateright::Representative;
use walk::*;


/// representative() cannot rewrite ids of actors that do not exist: keep every destination in range
pub fn clamp_ids(sys: &mut System) {
    let n = sys.tables.len() as u8;
    for t in sys.tables.iter_mut() {
        let fix = |cmds: &mut Vec<Cmd>| {
            for c in cmds.iter_mut() {
                if let Cmd::Send { dst: Dst::Abs(i), .. } = c {
                    *i %= n;
                }
                if let Cmd::Broadcast { dsts, .. } = c {
                    for i in dsts.iter_mut() {
                        *i %= n;
                    }
                }
            }
        };
        fix(&mut t.start);
        for (_, r) in t.msg.iter_mut().chain(t.timer.iter_mut()).chain(t.random.iter_mut()) {
            fix(&mut r.cmds);
        }
    }
    sys.init_net.retain(|(_, d, _)| *d < n);
}

pub fn gen_walk(focus: &str, seed: u64) -> WalkScenario {
    let mut rng = Rng::new(seed);
    let mut g = SysGen::default();
    g.states = rng.range(1, 4) as u8;
    g.tags = rng.range(1, 4) as u8;
    g.timers = rng.range(1, 3) as u8;
    g.randoms = rng.range(1, 3) as u8;
    g.use_timers = rng.chance(3, 4);
    g.use_random = rng.chance(2, 3);
    g.row_pct = *rng.pick(&[30u64, 60, 90]);
    g.log = rng.chance(1, 6);
    let mut weights = [10u64, 3, 4, 1, 4];
    match focus {
        "C07" => {
            g.use_random = rng.chance(1, 3);
            g.max_crashes = 1;
            weights = [10, 6, 2, 1, 2];
        }
        "C09" => {
            g.max_crashes = 2;
            weights = [8, 2, 4, 5, 4];
        }
        "C04" => {
            g.max_crashes = 2;
            weights = [8, 3, 4, 3, 4];
        }
        "C10" => {
            g.max_crashes = 2;
            g.log = rng.chance(1, 2);
        }
        _ => {}
    }
    let mut sys = gen_system(&mut rng, &g);
    if focus == "C09" && sys.max_crashes == 0 {
        sys.max_crashes = 1 + rng.usize_below(2);
    }
    if focus == "C07" {
        // more traffic per flow, repeated identical messages
        for _ in 0..rng.below(5) {
            let n = sys.tables.len() as u64;
            let e = (rng.below(n) as u8, rng.below(n) as u8, rng.below(g.tags as u64) as u8);
            sys.init_net.push(e);
            if rng.chance(1, 2) {
                sys.init_net.push(e);
            }
        }
    }
    if focus == "C07" && rng.chance(1, 25) {
        // a large initial network: 22-45 envelopes over a few flows, interleaved and not in key order,
        // with distinguishable messages inside each flow
        let n = sys.tables.len() as u64;
        let flows: Vec<(u8, u8)> = (0..rng.range(2, 4)).map(|_| (rng.below(n) as u8, rng.below(n) as u8)).collect();
        for k in 0..rng.range(22, 45) {
            let (a, b) = *rng.pick(&flows);
            sys.init_net.push((a, b, (k % g.tags.max(1) as u64) as u8));
        }
    }
    if matches!(focus, "C09" | "C06") && sys.max_crashes > 0 && rng.chance(1, 12) {
        // "no limit": a budget beyond any number of actors (and beyond isize::MAX)
        sys.max_crashes = *rng.pick(&[usize::MAX, usize::MAX - 1, usize::MAX / 2 + 1, 1000]);
    }
    if focus == "C10" {
        clamp_ids(&mut sys);
    }
    WalkScenario {
        sys,
        steps: rng.range(5, 80) as usize,
        walk_seed: rng.next_u64(),
        weights,
        crash_after_send_pct: *rng.pick(&[0u8, 10, 40]),
        picks: None,
    }
}

/// Harness-side permutation of a state dump by the stable sorting permutation of the actor states.
fn permuted(d: &RefState) -> RefState {
    let n = d.actors.len();
    let mut order: Vec<usize> = (0..n).collect();
    order.sort_by(|a, b| d.actors[*a].cmp(&d.actors[*b])); // stable
    let mut new_of = vec![0usize; n];
    for (new, old) in order.iter().enumerate() {
        new_of[*old] = new;
    }
    let rid = |i: Id| Id::from(new_of[usize::from(i)]);
    let rm = |m: &M| M { tag: m.tag, who: m.who.map(rid) };
    let rs = |s: &S| S { v: s.v, peer: s.peer.map(rid), log: s.log.iter().map(|l| LogEntry { src: rid(l.src), tag: l.tag }).collect() };
    let re = |e: &Env| (new_of[e.0], new_of[e.1], rm(&e.2));
    let net = match &d.net {
        RefNet::Ordered(f) => {
            let mut out = std::collections::BTreeMap::new();
            for ((s, dd), q) in f {
                out.insert((new_of[*s], new_of[*dd]), q.iter().map(rm).collect());
            }
            RefNet::Ordered(out)
        }
        RefNet::NonDup(b) => {
            let mut out = std::collections::BTreeMap::new();
            for (e, c) in b {
                *out.entry(re(e)).or_insert(0) += *c;
            }
            RefNet::NonDup(out)
        }
        RefNet::Dup(s, last) => RefNet::Dup(s.iter().map(re).collect(), last.as_ref().map(re)),
    };
    RefState {
        actors: order.iter().map(|o| rs(&d.actors[*o])).collect(),
        net,
        timers: order.iter().map(|o| d.timers[*o].clone()).collect(),
        choices: order.iter().map(|o| d.choices[*o].clone()).collect(),
        down: order.iter().map(|o| d.down[*o]).collect(),
        hist: Hist(d.hist.0.iter().map(|h| HEv { incoming: h.incoming, src: rid(h.src), dst: rid(h.dst), msg: rm(&h.msg) }).collect()),
    }
}

fn check_representatives(states: &[RealState], v: &mut Vec<Violation>, c: &mut Counters) {
    for s in states {
        let d = dump_real(s);
        let want = permuted(&d);
        let got = dump_real(&s.representative());
        c.inc("representatives_checked");
        if want != d {
            c.inc("representatives_nontrivial_permutation");
        }
        if got != want {
            let diff = describe_diff(&got, &want);
            v.push(Violation::new("C10", format!("representative:{}", diff), format!("representative() differs from the state under the stable sorting permutation in {}: got {:?}, expected {:?}, state {:?}", diff, got, want, d)));
            return;
        }
    }
}

pub fn execute(focus: &str, sc: &WalkScenario) -> (Vec<Violation>, Counters, u64, Vec<u64>) {
    let out = walk(sc);
    let mut v = out.violations;
    let mut c = out.counters;
    let mut hashes = Vec::new();
    let mut rng = Rng::new(sc.walk_seed ^ 0x5151);
    match focus {
        "C04" => {
            // a fresh pool per run keeps every report a function of its own scenario
            let mut p = identity::Pool::default();
            identity::check_states(&out.states, &mut rng, &mut p, &mut v, &mut c);
            identity::check_containers(&mut rng, &mut p, &mut v, &mut c);
            c.add("identity_pairs_checked", p.checked);
        }
        "C10" => {
            check_representatives(&out.states, &mut v, &mut c);
            // plans built from run data: the local states of the last state, then with extra ties
            if let Some(last) = out.states.last() {
                let mut vals: Vec<u8> = last.actor_states.iter().map(|a| a.v).collect();
                plans::check_plans(&vals, &mut rng, &mut v, &mut c);
                for _ in 0..rng.below(4) {
                    vals.push(rng.below(3) as u8);
                }
                plans::check_plans(&vals, &mut rng, &mut v, &mut c);
                // long vectors with many ties (sorting algorithms switch strategy with the length)
                if rng.chance(1, 4) {
                    let n = rng.range(20, 300) as usize;
                    let distinct = rng.range(1, 5);
                    let long: Vec<u8> = (0..n).map(|_| rng.below(distinct) as u8).collect();
                    plans::check_plans(&long, &mut rng, &mut v, &mut c);
                }
            }
        }
        _ => {}
    }
    for s in out.states.iter().take(64) {
        hashes.push(stateright::verif_fingerprint(s));
    }
    c.inc(&format!("net_{:?}{}", sc.sys.net, if sc.sys.lossy { "_lossy" } else { "" }));
    (v, c, out.signature, hashes)
}

fn adapter_report(out: lockstep::LockOutcome) -> RunReport {
    RunReport { violations: out.violations, counters: out.counters, signature: out.signature, nontrivial: out.steps >= 2, sim_time_ns: 0, steps: out.steps, case_hashes: vec![out.signature] }
}

fn orl_report(out: orl::OrlOutcome) -> RunReport {
    RunReport { violations: out.violations, counters: out.counters, signature: out.signature, nontrivial: out.steps >= 3, sim_time_ns: 0, steps: out.steps, case_hashes: vec![out.signature] }
}

fn reg_report(out: regharness::RegOutcome) -> RunReport {
    RunReport { violations: out.violations, counters: out.counters, signature: out.signature, nontrivial: out.steps >= 3, sim_time_ns: 0, steps: out.steps, case_hashes: vec![out.signature] }
}

fn ck_report(out: checker_level::CkOutcome) -> RunReport {
    RunReport { violations: out.violations, counters: out.counters, signature: out.trace_hash, nontrivial: out.states >= 2, sim_time_ns: out.clock, steps: out.steps, case_hashes: vec![] }
}

pub fn run_case(focus: &str, seed: u64) -> (RunReport, Value) {
    if focus == "C09" && seed % 6 == 0 {
        let sc = checker_level::gen_checker(seed);
        return (ck_report(checker_level::run_checker(&sc)), serde_json::to_value(&sc).unwrap());
    }
    if focus == "C18" || focus == "C08" {
        let mut sc = regharness::gen_reg(seed);
        if focus == "C08" {
            sc.servers = 1;
            sc.modes.truncate(1);
            if sc.net == "dup" {
                sc.net = "nondup".to_string();
            }
        }
        let mut out = regharness::run_reg(&sc);
        out.violations.retain(|x| x.property == focus);
        if !out.violations.is_empty() {
            sc.picks = Some(out.taken.clone());
        }
        let mut rep = reg_report(out);
        rep.counters.inc(&format!("harness_{}_{}", sc.proto, sc.net));
        for m in &sc.modes {
            rep.counters.inc(&format!("server_mode_{}", m));
        }
        return (rep, serde_json::to_value(&sc).unwrap());
    }
    if focus == "C16" {
        let mut sc = orl::gen_orl(seed);
        let out = orl::run_orl(&sc);
        if !out.violations.is_empty() {
            sc.picks = Some(out.taken.clone());
        }
        let mut rep = orl_report(out);
        rep.counters.inc(&format!("net_{}{}", sc.net, if sc.lossy { "_lossy" } else { "" }));
        return (rep, serde_json::to_value(&sc).unwrap());
    }
    if focus == "C15" {
        let sc = lockstep::gen_adapter(seed);
        let mut rep = adapter_report(lockstep::run_adapter(&sc));
        rep.counters.inc(&format!("adapter_{}", sc.adapter));
        return (rep, serde_json::to_value(&sc).unwrap());
    }
    let sc = gen_walk(focus, seed);
    let (v, c, sig, hashes) = execute(focus, &sc);
    let steps = c.get("walk_steps");
    let mut explicit = sc.clone();
    let viol: Vec<Violation> = v.into_iter().filter(|x| x.property == focus).collect();
    if !viol.is_empty() {
        // make the replay explicit: the picks taken so far
        let out = walk(&sc);
        explicit.picks = Some(out.taken.iter().map(Pick::from).collect());
        explicit.steps = out.taken.len() + 1;
    }
    let report = RunReport { violations: viol, counters: c, signature: sig, nontrivial: steps >= 2, sim_time_ns: 0, steps, case_hashes: hashes };
    (report, serde_json::to_value(&explicit).unwrap())
}

pub fn replay(focus: &str, scenario: &Value) -> Result<RunReport, String> {
    if scenario.get("dfs").is_some() {
        let sc: checker_level::CheckerScenario = serde_json::from_value(scenario.clone()).map_err(|e| e.to_string())?;
        return Ok(ck_report(checker_level::run_checker(&sc)));
    }
    if focus == "C18" || focus == "C08" {
        let sc: regharness::RegScenario = serde_json::from_value(scenario.clone()).map_err(|e| e.to_string())?;
        let mut out = regharness::run_reg(&sc);
        out.violations.retain(|x| x.property == focus);
        return Ok(reg_report(out));
    }
    if focus == "C16" {
        let sc: orl::OrlScenario = serde_json::from_value(scenario.clone()).map_err(|e| e.to_string())?;
        return Ok(orl_report(orl::run_orl(&sc)));
    }
    if focus == "C15" {
        let sc: lockstep::AdapterScenario = serde_json::from_value(scenario.clone()).map_err(|e| e.to_string())?;
        return Ok(adapter_report(lockstep::run_adapter(&sc)));
    }
    let sc: WalkScenario = serde_json::from_value(scenario.clone()).map_err(|e| e.to_string())?;
    let (v, c, sig, hashes) = execute(focus, &sc);
    let steps = c.get("walk_steps");
    Ok(RunReport { violations: v.into_iter().filter(|x| x.property == focus).collect(), counters: c, signature: sig, nontrivial: true, sim_time_ns: 0, steps, case_hashes: hashes })
}

pub fn summary(scenario: &Value) -> Value {
    if scenario.get("dfs").is_some() {
        return serde_json::json!({"checker_level": true, "dfs": scenario["dfs"], "threads": scenario["threads"], "actors": scenario["sys"]["tables"].as_array().map(|a| a.len()), "network": scenario["sys"]["net"], "lossy": scenario["sys"]["lossy"], "max_crashes": scenario["sys"]["max_crashes"], "max_messages_in_flight": scenario["sys"]["hist"]["cap"]});
    }
    if scenario.get("proto").is_some() {
        let mut s = scenario.clone();
        if let Some(o) = s.as_object_mut() {
            o.remove("picks");
        }
        return s;
    }
    if scenario.get("users").is_some() {
        return serde_json::json!({"users": scenario["users"], "network": scenario["net"], "lossy": scenario["lossy"], "steps": scenario["steps"], "quiesce_steps": scenario["quiesce_steps"], "weights_deliver_drop_timeout": scenario["weights"]});
    }
    if scenario.get("adapter").is_some() {
        return serde_json::json!({"adapter": scenario["adapter"], "actors": scenario["sys"]["tables"].as_array().map(|a| a.len()), "network": scenario["sys"]["net"], "lossy": scenario["sys"]["lossy"], "max_crashes": scenario["sys"]["max_crashes"], "positions": scenario["positions"], "steps": scenario["steps"], "script": scenario["script"]});
    }
    let sc: WalkScenario = match serde_json::from_value(scenario.clone()) {
        Ok(s) => s,
        Err(_) => return Value::Null,
    };
    serde_json::json!({
        "actors": sc.sys.tables.len(), "network": format!("{:?}", sc.sys.net), "lossy": sc.sys.lossy,
        "max_crashes": sc.sys.max_crashes, "history": sc.sys.hist, "initial_messages": sc.sys.init_net.len(),
        "handler_rows": sc.sys.tables.iter().map(|t| t.msg.len() + t.timer.len() + t.random.len()).collect::<Vec<_>>(),
        "walk_steps": sc.steps, "weights_deliver_drop_timeout_crash_select": sc.weights,
        "first_table": sc.sys.tables.first(),
    })
}

pub fn shrink_candidates(scenario: &Value) -> Vec<Value> {
    if scenario.get("dfs").is_some() {
        let Ok(sc) = serde_json::from_value::<checker_level::CheckerScenario>(scenario.clone()) else { return vec![] };
        let mut out = Vec::new();
        if sc.threads > 1 {
            let mut s = sc.clone();
            s.threads = 1;
            out.push(s);
        }
        for a in 0..sc.sys.tables.len() {
            for r in 0..sc.sys.tables[a].msg.len() {
                let mut s = sc.clone();
                s.sys.tables[a].msg.remove(r);
                out.push(s);
            }
            for r in 0..sc.sys.tables[a].timer.len() {
                let mut s = sc.clone();
                s.sys.tables[a].timer.remove(r);
                out.push(s);
            }
            for r in 0..sc.sys.tables[a].random.len() {
                let mut s = sc.clone();
                s.sys.tables[a].random.remove(r);
                out.push(s);
            }
            for r in 0..sc.sys.tables[a].start.len() {
                let mut s = sc.clone();
                s.sys.tables[a].start.remove(r);
                out.push(s);
            }
        }
        if sc.sys.tables.len() > 1 {
            let mut s = sc.clone();
            s.sys.tables.pop();
            out.push(s);
        }
        return out.into_iter().map(|s| serde_json::to_value(&s).unwrap()).collect();
    }
    if scenario.get("proto").is_some() {
        let Ok(sc) = serde_json::from_value::<regharness::RegScenario>(scenario.clone()) else { return vec![] };
        let mut out = Vec::new();
        if let Some(p) = &sc.picks {
            for i in (0..p.len()).rev() {
                let mut s = sc.clone();
                let mut q = p.clone();
                q.remove(i);
                s.picks = Some(q);
                out.push(s);
            }
        }
        if sc.clients.len() > 1 {
            let mut s = sc.clone();
            s.clients.pop();
            out.push(s);
        }
        for i in 0..sc.clients.len() {
            if sc.clients[i] > 0 {
                let mut s = sc.clone();
                s.clients[i] -= 1;
                out.push(s);
            }
        }
        if sc.max_crashes > 0 {
            let mut s = sc.clone();
            s.max_crashes = 0;
            out.push(s);
        }
        return out.into_iter().map(|s| serde_json::to_value(&s).unwrap()).collect();
    }
    if scenario.get("users").is_some() {
        let Ok(sc) = serde_json::from_value::<orl::OrlScenario>(scenario.clone()) else { return vec![] };
        let mut out = Vec::new();
        if let Some(p) = &sc.picks {
            for i in (0..p.len()).rev() {
                let mut s = sc.clone();
                let mut q = p.clone();
                q.remove(i);
                s.picks = Some(q);
                out.push(s);
            }
        }
        for u in 0..sc.users.len() {
            for i in 0..sc.users[u].start.len() {
                let mut s = sc.clone();
                s.users[u].start.remove(i);
                out.push(s);
            }
            for i in 0..sc.users[u].reactive.len() {
                let mut s = sc.clone();
                s.users[u].reactive.remove(i);
                out.push(s);
            }
            if sc.users[u].ignore_mod != 0 {
                let mut s = sc.clone();
                s.users[u].ignore_mod = 0;
                out.push(s);
            }
        }
        if sc.quiesce_steps > 0 {
            let mut s = sc.clone();
            s.quiesce_steps = 0;
            out.push(s);
        }
        return out.into_iter().map(|s| serde_json::to_value(&s).unwrap()).collect();
    }
    if scenario.get("adapter").is_some() {
        let Ok(sc) = serde_json::from_value::<lockstep::AdapterScenario>(scenario.clone()) else { return vec![] };
        let mut out = Vec::new();
        if sc.steps > 1 {
            let mut s = sc.clone();
            s.steps = sc.steps / 2;
            out.push(s);
            let mut s = sc.clone();
            s.steps = sc.steps - 1;
            out.push(s);
        }
        for a in 0..sc.sys.tables.len() {
            for r in 0..sc.sys.tables[a].msg.len() {
                let mut s = sc.clone();
                s.sys.tables[a].msg.remove(r);
                out.push(s);
            }
            for r in 0..sc.sys.tables[a].timer.len() {
                let mut s = sc.clone();
                s.sys.tables[a].timer.remove(r);
                out.push(s);
            }
            for r in 0..sc.sys.tables[a].random.len() {
                let mut s = sc.clone();
                s.sys.tables[a].random.remove(r);
                out.push(s);
            }
        }
        if sc.sys.max_crashes > 0 {
            let mut s = sc.clone();
            s.sys.max_crashes = 0;
            out.push(s);
        }
        return out.into_iter().map(|s| serde_json::to_value(&s).unwrap()).collect();
    }
    let sc: WalkScenario = match serde_json::from_value(scenario.clone()) {
        Ok(s) => s,
        Err(_) => return vec![],
    };
    let mut out: Vec<WalkScenario> = Vec::new();
    // fewer picks
    if let Some(p) = &sc.picks {
        for i in 0..p.len() {
            let mut s = sc.clone();
            let mut q = p.clone();
            q.remove(i);
            s.picks = Some(q);
            out.push(s);
        }
    }
    // simpler configuration
    if sc.sys.hist.rec_in != 0 || sc.sys.hist.rec_out != 0 {
        let mut s = sc.clone();
        s.sys.hist.rec_in = 0;
        s.sys.hist.rec_out = 0;
        out.push(s);
    }
    if !sc.sys.init_net.is_empty() {
        for i in 0..sc.sys.init_net.len() {
            let mut s = sc.clone();
            s.sys.init_net.remove(i);
            out.push(s);
        }
    }
    // drop handler rows and commands
    for a in 0..sc.sys.tables.len() {
        for which in 0..3 {
            let len = match which {
                0 => sc.sys.tables[a].msg.len(),
                1 => sc.sys.tables[a].timer.len(),
                _ => sc.sys.tables[a].random.len(),
            };
            for r in 0..len {
                let mut s = sc.clone();
                match which {
                    0 => {
                        s.sys.tables[a].msg.remove(r);
                    }
                    1 => {
                        s.sys.tables[a].timer.remove(r);
                    }
                    _ => {
                        s.sys.tables[a].random.remove(r);
                    }
                }
                out.push(s);
            }
        }
        for ci in 0..sc.sys.tables[a].start.len() {
            let mut s = sc.clone();
            s.sys.tables[a].start.remove(ci);
            out.push(s);
        }
    }
    // drop the last actor when nothing refers to it explicitly
    if sc.sys.tables.len() > 1 {
        let mut s = sc.clone();
        s.sys.tables.pop();
        out.push(s);
    }
    out.into_iter().map(|s| serde_json::to_value(&s).unwrap()).collect()
}
