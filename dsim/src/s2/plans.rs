//! C10 (plans): a plan built by sorting a vector with ties is the stable sorting permutation, and
//! every provided container is rewritten consistently under it.

use crate::common::{Counters, Violation};
use crate::rng::Rng;
use stateright::actor::Id;
use stateright::util::{DenseNatMap, HashableHashMap, HashableHashSet};
use stateright::{Rewrite, RewritePlan};
use std::collections::{BTreeMap, BTreeSet, VecDeque};
use std::sync::Arc;

pub fn check_plans(values: &[u8], rng: &mut Rng, v: &mut Vec<Violation>, c: &mut Counters) {
    let n = values.len();
    if n == 0 {
        return;
    }
    c.inc("plans_checked");
    if values.iter().collect::<BTreeSet<_>>().len() < n {
        c.inc("plans_with_ties");
    }
    let plan: RewritePlan<Id, _> = RewritePlan::from_values_to_sort(values);
    // the stable sorting permutation, by harness code
    let mut order: Vec<usize> = (0..n).collect();
    order.sort_by_key(|i| values[*i]); // stable
    let mut new_of = vec![0usize; n];
    for (new, old) in order.iter().enumerate() {
        new_of[*old] = new;
    }
    let map = |i: Id| Id::from(new_of[usize::from(i)]);
    let mut fail = |what: &str, msg: String| v.push(Violation::new("C10", format!("plan:{}", what), format!("values {:?}: {}", values, msg)));
    // rewrite of single ids, reindex of a vector
    for i in 0..n {
        let got = plan.rewrite(&Id::from(i));
        if got != map(Id::from(i)) {
            fail("rewrite", format!("Id({}) is rewritten to {:?}, the stable sort puts it at {}", i, got, new_of[i]));
            return;
        }
    }
    let tagged: Vec<u32> = (0..n as u32).map(|i| i * 10 + values[i as usize] as u32 % 10).collect();
    let want: Vec<u32> = order.iter().map(|o| tagged[*o]).collect();
    if plan.reindex(&tagged) != want {
        fail("reindex:Vec", format!("reindex gives {:?}, expected {:?}", plan.reindex(&tagged), want));
    }
    let dq: VecDeque<u32> = tagged.iter().cloned().collect();
    if plan.reindex(&dq) != want.iter().cloned().collect::<VecDeque<_>>() {
        fail("reindex:VecDeque", format!("reindex gives {:?}, expected {:?}", plan.reindex(&dq), want));
    }
    // containers of ids built from run data
    let ids: Vec<Id> = (0..rng.range(0, 5)).map(|_| Id::from(rng.usize_below(n))).collect();
    let m_ids: Vec<Id> = ids.iter().map(|i| map(*i)).collect();
    if ids.rewrite(&plan) != m_ids {
        fail("Vec", format!("{:?} -> {:?}, expected {:?}", ids, ids.rewrite(&plan), m_ids));
    }
    let dq: VecDeque<Id> = ids.iter().cloned().collect();
    if dq.rewrite(&plan) != m_ids.iter().cloned().collect::<VecDeque<_>>() {
        fail("VecDeque", format!("{:?} -> {:?}", dq, dq.rewrite(&plan)));
    }
    let bs: BTreeSet<Id> = ids.iter().cloned().collect();
    if bs.rewrite(&plan) != m_ids.iter().cloned().collect::<BTreeSet<_>>() {
        fail("BTreeSet", format!("{:?} -> {:?}", bs, bs.rewrite(&plan)));
    }
    let bm: BTreeMap<Id, Id> = ids.iter().cloned().zip(ids.iter().rev().cloned()).collect();
    let want_bm: BTreeMap<Id, Id> = bm.iter().map(|(k, x)| (map(*k), map(*x))).collect();
    if bm.rewrite(&plan) != want_bm {
        fail("BTreeMap", format!("{:?} -> {:?}, expected {:?}", bm, bm.rewrite(&plan), want_bm));
    }
    let hs: HashableHashSet<Id> = ids.iter().cloned().collect();
    let got: BTreeSet<Id> = hs.rewrite(&plan).iter().cloned().collect();
    if got != m_ids.iter().cloned().collect::<BTreeSet<_>>() {
        fail("HashableHashSet", format!("{:?} -> {:?}", hs, got));
    }
    let hm: HashableHashMap<Id, Id> = bm.iter().map(|(k, x)| (*k, *x)).collect();
    let got: BTreeMap<Id, Id> = hm.rewrite(&plan).iter().map(|(k, x)| (*k, *x)).collect();
    if got != want_bm {
        fail("HashableHashMap", format!("{:?} -> {:?}, expected {:?}", hm, got, want_bm));
    }
    let o = ids.first().cloned();
    if o.rewrite(&plan) != o.map(map) {
        fail("Option", format!("{:?} -> {:?}", o, o.rewrite(&plan)));
    }
    if let (Some(a), Some(b)) = (ids.first(), ids.last()) {
        let t = (*a, *b);
        if t.rewrite(&plan) != (map(*a), map(*b)) {
            fail("tuple", format!("{:?} -> {:?}", t, t.rewrite(&plan)));
        }
        let arc = Arc::new(*a);
        if *arc.rewrite(&plan) != map(*a) {
            fail("Arc", format!("{:?} -> {:?}", arc, arc.rewrite(&plan)));
        }
    }
    // pending random choices that mention ids
    {
        let mut rc: stateright::actor::RandomChoices<Id> = Default::default();
        rc.insert("pick".to_string(), ids.clone());
        let got = rc.rewrite(&plan);
        let got_ids: Option<Vec<Id>> = got.map.iter().next().map(|(_, x)| x.clone());
        if !ids.is_empty() && got_ids != Some(m_ids.clone()) {
            fail("RandomChoices", format!("choices {:?} -> {:?}, expected {:?}", ids, got_ids, m_ids));
        }
    }
    // a dense map keyed by the rewritten type moves every value to the rewritten key
    let dm: DenseNatMap<Id, u32> = tagged.clone().into();
    let got = dm.rewrite(&plan);
    for i in 0..n {
        if got.get(map(Id::from(i))) != Some(&tagged[i]) {
            fail("DenseNatMap", format!("value {} of key {} is not at key {} after rewriting: {:?}", tagged[i], i, new_of[i], got));
            break;
        }
    }
    // the write-once register protocol: ids inside values, inside internal messages and inside a
    // wrapped server's state are renamed; request ids and client states are left alone
    if n > 0 {
        use stateright::actor::write_once_register::{WORegisterActorState, WORegisterMsg};
        let a = Id::from(rng.usize_below(n));
        let b = Id::from(rng.usize_below(n));
        type W = WORegisterMsg<u64, Id, (Id, Option<Id>)>;
        let cases: Vec<(W, W)> = vec![
            (WORegisterMsg::Internal((a, Some(b))), WORegisterMsg::Internal((map(a), Some(map(b))))),
            (WORegisterMsg::Put(3, a), WORegisterMsg::Put(3, map(a))),
            (WORegisterMsg::Get(4), WORegisterMsg::Get(4)),
            (WORegisterMsg::PutOk(5), WORegisterMsg::PutOk(5)),
            (WORegisterMsg::PutFail(6), WORegisterMsg::PutFail(6)),
            (WORegisterMsg::GetOk(7, b), WORegisterMsg::GetOk(7, map(b))),
        ];
        for (x, want) in cases {
            let got: W = x.rewrite(&plan);
            if got != want {
                fail("WORegisterMsg", format!("{:?} -> {:?}, expected {:?}", x, got, want));
            }
        }
        type WS = WORegisterActorState<Vec<Id>, u64>;
        let srv: WS = WORegisterActorState::Server(vec![a, b]);
        let got: WS = srv.rewrite(&plan);
        if got != WORegisterActorState::Server(vec![map(a), map(b)]) {
            fail("WORegisterActorState", format!("{:?} -> {:?}", srv, got));
        }
        let cl: WS = WORegisterActorState::Client { awaiting: Some(9), op_count: 2 };
        let got: WS = cl.rewrite(&plan);
        if got != cl {
            fail("WORegisterActorState", format!("{:?} -> {:?}", cl, got));
        }
        // an envelope: both endpoints and the ids inside the message
        let env = stateright::actor::Envelope { src: a, dst: b, msg: (b, a) };
        let got = env.rewrite(&plan);
        if (got.src, got.dst, got.msg) != (map(a), map(b), (map(b), map(a))) {
            fail("Envelope", format!("{:?} -> {:?}", env, got));
        }
    }
}
