//! Seeded, fault-biased walks of the real `ActorModel` in lockstep with the reference stepper.

use super::reference::*;
use super::script::*;
use crate::common::{Counters, Violation};
use crate::rng::Rng;
use serde::{Deserialize, Serialize};
use stateright::actor::{ActorModel, ActorModelAction, Envelope, Id, LossyNetwork, Network};
use stateright::Model;
use std::collections::{BTreeMap, BTreeSet};
use std::sync::Arc;

pub type RealModel = ActorModel<ScriptActor, HCfg, Hist>;
pub type RealAction = ActorModelAction<M, u8, u8>;

pub fn build_model(sys: &System) -> RealModel {
    let envs: Vec<Envelope<M>> = sys
        .init_net
        .iter()
        .map(|(s, d, t)| Envelope { src: Id::from(*s as usize), dst: Id::from(*d as usize), msg: M { tag: *t, who: None } })
        .collect();
    // an initially empty network is selected by its name (the string interface of `Network`),
    // a non-empty one through the constructors
    let net: Network<M> = if envs.is_empty() {
        let name = match sys.net {
            NetKind::Ordered => "ordered",
            NetKind::Dup => "unordered_duplicating",
            NetKind::NonDup => "unordered_nonduplicating",
        };
        name.parse().unwrap_or_else(|_| panic!("Network::from_str rejects its own name {:?}", name))
    } else {
        match sys.net {
            NetKind::Ordered => Network::new_ordered(envs),
            NetKind::Dup => Network::new_unordered_duplicating(envs),
            NetKind::NonDup => Network::new_unordered_nonduplicating(envs),
        }
    };
    let actors = sys.tables.iter().map(|t| ScriptActor(Arc::new(t.clone())));
    let lossy = if sys.lossy { LossyNetwork::Yes } else { LossyNetwork::No };
    // the builder calls commute: configure in either order
    let m = if sys.crashes_first {
        ActorModel::new(sys.hist.clone(), Hist::default()).max_crashes(sys.max_crashes).lossy_network(lossy).init_network(net).actors(actors)
    } else {
        ActorModel::new(sys.hist.clone(), Hist::default()).actors(actors).init_network(net).lossy_network(lossy).max_crashes(sys.max_crashes)
    };
    m.record_msg_in(rec_in).record_msg_out(rec_out)
}

pub fn key_of(a: &RealAction) -> AKey {
    match a {
        ActorModelAction::Deliver { src, dst, msg } => AKey::Deliver(usize::from(*src), usize::from(*dst), msg.clone()),
        ActorModelAction::Drop(e) => AKey::Drop(usize::from(e.src), usize::from(e.dst), e.msg.clone()),
        ActorModelAction::Timeout(i, t) => AKey::Timeout(usize::from(*i), *t),
        ActorModelAction::Crash(i) => AKey::Crash(usize::from(*i)),
        ActorModelAction::SelectRandom { actor, key, random } => AKey::Select(usize::from(*actor), key.clone(), *random),
    }
}

fn kind_index(k: &AKey) -> usize {
    match k {
        AKey::Deliver(..) => 0,
        AKey::Drop(..) => 1,
        AKey::Timeout(..) => 2,
        AKey::Crash(..) => 3,
        AKey::Select(..) => 4,
    }
}
fn kind_name(k: &AKey) -> &'static str {
    ["deliver", "drop", "timeout", "crash", "select"][kind_index(k)]
}
fn actor_of(k: &AKey) -> usize {
    match k {
        AKey::Deliver(_, d, _) => *d,
        AKey::Drop(_, d, _) => *d,
        AKey::Timeout(i, _) | AKey::Crash(i) | AKey::Select(i, _, _) => *i,
    }
}

#[derive(Clone, Debug, Serialize, Deserialize)]
pub struct WalkScenario {
    pub sys: System,
    pub steps: usize,
    pub walk_seed: u64,
    /// deliver, drop, timeout, crash, select
    pub weights: [u64; 5],
    pub crash_after_send_pct: u8,
    /// Explicit picks (replay / shrinking); steps that are not enabled are skipped.
    #[serde(default)]
    pub picks: Option<Vec<Pick>>,
}

/// Serializable form of an action key.
#[derive(Clone, Debug, Serialize, Deserialize, PartialEq)]
pub enum Pick {
    Deliver(usize, usize, M),
    Drop(usize, usize, M),
    Timeout(usize, u8),
    Crash(usize),
    Select(usize, String, u8),
}
impl From<&AKey> for Pick {
    fn from(k: &AKey) -> Pick {
        match k.clone() {
            AKey::Deliver(a, b, m) => Pick::Deliver(a, b, m),
            AKey::Drop(a, b, m) => Pick::Drop(a, b, m),
            AKey::Timeout(a, t) => Pick::Timeout(a, t),
            AKey::Crash(a) => Pick::Crash(a),
            AKey::Select(a, k, r) => Pick::Select(a, k, r),
        }
    }
}
impl Pick {
    fn key(&self) -> AKey {
        match self.clone() {
            Pick::Deliver(a, b, m) => AKey::Deliver(a, b, m),
            Pick::Drop(a, b, m) => AKey::Drop(a, b, m),
            Pick::Timeout(a, t) => AKey::Timeout(a, t),
            Pick::Crash(a) => AKey::Crash(a),
            Pick::Select(a, k, r) => AKey::Select(a, k, r),
        }
    }
}

pub struct WalkOutcome {
    pub states: Vec<RealState>,
    pub taken: Vec<AKey>,
    pub violations: Vec<Violation>,
    pub counters: Counters,
    pub signature: u64,
}

/// Invariants between the real network's observers and its content (C07).
fn check_network_observers(real: &RealState, rf: &RefState, v: &mut Vec<Violation>) {
    let content = dump_net(&real.network);
    if content != rf.net {
        v.push(Violation::new("C07", "content", format!("network content {:?} differs from the reference {:?}", content, rf.net)));
        return;
    }
    let kind = match rf.net {
        RefNet::Ordered(_) => "ordered",
        RefNet::NonDup(_) => "nonduplicating",
        RefNet::Dup(..) => "duplicating",
    };
    let expect_all = {
        let mut a = rf.net.all();
        a.sort();
        a
    };
    if real.network.len() != expect_all.len() {
        v.push(Violation::new("C07", "len", format!("len() = {} but the network holds {} messages ({})", real.network.len(), expect_all.len(), kind)));
    }
    let cap = expect_all.len() + 1;
    let mut got: Vec<Env> = Vec::new();
    let mut overflow = false;
    for e in real.network.iter_all() {
        if got.len() >= cap {
            overflow = true;
            break;
        }
        got.push((usize::from(e.src), usize::from(e.dst), e.msg.clone()));
    }
    if overflow {
        v.push(Violation::new("C07", format!("iter-all:{}", kind), format!("iter_all() yields more than len()+1 = {} envelopes (non-terminating or over-counting)", cap)));
    } else {
        if let RefNet::Ordered(_) = rf.net {
            // flows must come out in order
            if got != rf.net.all() {
                v.push(Violation::new("C07", format!("iter-all:{}", kind), format!("iter_all() yields {:?}, content is {:?}", got, rf.net.all())));
            }
        } else {
            got.sort();
            if got != expect_all {
                v.push(Violation::new("C07", format!("iter-all:{}", kind), format!("iter_all() yields {:?}, content is {:?}", got, expect_all)));
            }
        }
    }
    let mut deliv: Vec<Env> = real.network.iter_deliverable().map(|e| (usize::from(e.src), usize::from(e.dst), e.msg.clone())).collect();
    deliv.sort();
    let mut want = rf.net.deliverable();
    want.sort();
    if deliv != want {
        v.push(Violation::new("C07", if kind == "ordered" { "fifo" } else { "deliverable" }, format!("iter_deliverable() yields {:?}, deliverable are {:?}", deliv, want)));
    }
}

pub fn walk(sc: &WalkScenario) -> WalkOutcome {
    let model = build_model(&sc.sys);
    let rm = RefModel { sys: &sc.sys };
    let mut rng = Rng::new(sc.walk_seed);
    let mut v: Vec<Violation> = Vec::new();
    let mut c = Counters::default();
    let mut states: Vec<RealState> = Vec::new();
    let mut taken: Vec<AKey> = Vec::new();
    let mut sig: u64 = 0xcbf2_9ce4_8422_2325;

    let inits = model.init_states();
    let mut rf = rm.init();
    if inits.len() != 1 {
        v.push(Violation::new("C06", "step-set", format!("{} initial states", inits.len())));
        return WalkOutcome { states, taken, violations: v, counters: c, signature: sig };
    }
    let mut real = inits.into_iter().next().unwrap();
    {
        let d = dump_real(&real);
        if d != rf {
            let diff = describe_diff(&d, &rf);
            v.push(Violation::new("C06", format!("successor:{}", diff), format!("initial state differs from the reference in {}: real {:?} vs reference {:?}", diff, d, rf)));
            if diff == "network" {
                v.push(Violation::new("C07", "content", format!("initial network {:?} vs reference {:?}", d.net, rf.net)));
            }
        }
    }
    let mut pick_iter = sc.picks.clone().map(|p| p.into_iter());
    let mut force_crash_of: Option<usize> = None;
    let mut delivered_once: BTreeSet<Env> = BTreeSet::new();
    for _step in 0..sc.steps {
        if !v.is_empty() {
            break;
        }
        states.push(real.clone());
        check_network_observers(&real, &rf, &mut v);
        if !v.is_empty() {
            break;
        }
        // real effective steps
        let mut acts: Vec<RealAction> = Vec::new();
        model.actions(&real, &mut acts);
        let cur = dump_real(&real);
        let mut real_offered: BTreeSet<AKey> = BTreeSet::new();
        let mut real_steps: BTreeMap<AKey, (RealState, RefState)> = BTreeMap::new();
        for a in acts {
            let k = key_of(&a);
            real_offered.insert(k.clone());
            if real_steps.contains_key(&k) {
                continue;
            }
            if let Some(nx) = model.next_state(&real, a) {
                let d = dump_real(&nx);
                if d != cur {
                    real_steps.insert(k, (nx, d));
                } else {
                    c.inc("probe_offered_step_without_effect");
                }
            } else {
                c.inc(&format!("probe_ignored_{}", kind_name(&k)));
            }
        }
        let mut ref_steps: BTreeMap<AKey, RefState> = BTreeMap::new();
        for (k, nx) in rm.steps(&rf) {
            if nx != rf {
                ref_steps.entry(k).or_insert(nx);
            }
        }
        // compare
        for (k, (_, d)) in &real_steps {
            match ref_steps.get(k) {
                None => {
                    let i = actor_of(k);
                    let down = rf.down.get(i).cloned().unwrap_or(false);
                    // a message that leaves the network without a drop step and without reaching a
                    // live actor's handler has vanished undelivered
                    if matches!(k, AKey::Deliver(..)) && d.net.len() < cur.net.len() && (down || i >= rf.actors.len()) {
                        v.push(Violation::new("C07", "vanished-undelivered", format!("{:?} removes the message from the network although the destination is {} (no drop step, no handler ran)", k, if down { "crashed" } else { "not an actor" })));
                    }
                    if matches!(k, AKey::Crash(_)) {
                        v.push(Violation::new("C09", "crash-offer", format!("crash of actor {} offered with {} of {} allowed actors down (or already down: {})", i, rf.down.iter().filter(|d| **d).count(), sc.sys.max_crashes, down)));
                    } else if down && !matches!(k, AKey::Drop(..)) {
                        v.push(Violation::new("C09", format!("zombie-step:{}", kind_name(k)), format!("crashed actor {} takes a {} step: {:?}", i, kind_name(k), k)));
                    } else if matches!(k, AKey::Drop(..)) {
                        v.push(Violation::new("C07", "drop-offered", format!("drop step {:?} offered (lossy={})", k, sc.sys.lossy)));
                    } else if matches!(k, AKey::Deliver(..)) && !rf.net.deliverable().iter().any(|e| AKey::Deliver(e.0, e.1, e.2.clone()) == *k) {
                        v.push(Violation::new("C07", if rf.net.is_ordered() { "fifo" } else { "deliverable" }, format!("{:?} delivered although it is not deliverable; deliverable: {:?}", k, rf.net.deliverable())));
                    }
                    v.push(Violation::new("C06", "step-set", format!("the model takes step {:?} which the reference semantics does not admit", k)));
                }
                Some(rd) => {
                    if d != rd {
                        let diff = describe_diff(d, rd);
                        if matches!(k, AKey::Crash(_)) {
                            v.push(Violation::new("C09", "crash-effect", format!("after {:?}: {} differ; real {:?} vs reference {:?}", k, diff, d, rd)));
                        }
                        if diff == "network" {
                            v.push(Violation::new("C07", "content", format!("after {:?}: network {:?} vs reference {:?}", k, d.net, rd.net)));
                        }
                        let class = if diff == "history" { "history-order".to_string() } else { format!("successor:{}", diff) };
                        v.push(Violation::new("C06", class, format!("after {:?}: {} differ; real {:?} vs reference {:?}", k, diff, d, rd)));
                    }
                }
            }
        }
        for k in ref_steps.keys() {
            if !real_steps.contains_key(k) {
                // with somebody down, every step of an actor that is up must still be possible
                if rf.down.iter().any(|d| *d) && !matches!(k, AKey::Crash(_) | AKey::Drop(..)) && !rf.down.get(actor_of(k)).cloned().unwrap_or(false) {
                    v.push(Violation::new("C09", "bystander-step-missing", format!("with actors {:?} down, actor {} (up) can no longer take step {:?}", rf.down, actor_of(k), k)));
                }
                if matches!(k, AKey::Crash(_)) {
                    v.push(Violation::new("C09", "crash-offer", format!("crash of actor {} is allowed ({} of {} down) but not offered", actor_of(k), rf.down.iter().filter(|d| **d).count(), sc.sys.max_crashes)));
                } else if matches!(k, AKey::Drop(..)) {
                    v.push(Violation::new("C07", "drop-offered", format!("drop step {:?} missing on a lossy network (offered: {})", k, real_offered.contains(k))));
                } else if matches!(k, AKey::Deliver(..)) && !real_offered.contains(k) {
                    v.push(Violation::new("C07", if rf.net.is_ordered() { "fifo" } else { "deliverable" }, format!("{:?} is deliverable but not offered", k)));
                }
                v.push(Violation::new("C06", "step-set", format!("the reference semantics admits step {:?} which the model does not take (offered: {})", k, real_offered.contains(k))));
            }
        }
        if !v.is_empty() {
            // the states the model would move to are still worth an identity check
            for (nx, _) in real_steps.values() {
                states.push(nx.clone());
            }
            break;
        }
        if real_steps.is_empty() {
            break;
        }
        // choose
        let keys: Vec<AKey> = real_steps.keys().cloned().collect();
        let chosen: Option<AKey> = if let Some(it) = pick_iter.as_mut() {
            let mut found = None;
            for p in it.by_ref() {
                let k = p.key();
                if real_steps.contains_key(&k) {
                    found = Some(k);
                    break;
                }
            }
            found
        } else {
            let forced = force_crash_of.take().and_then(|i| keys.iter().find(|k| **k == AKey::Crash(i)).cloned());
            if let Some(k) = forced {
                c.inc("probe_crash_right_after_send_to_victim");
                Some(k)
            } else {
                let mut w = [0u64; 5];
                for k in &keys {
                    w[kind_index(k)] = sc.weights[kind_index(k)].max(1);
                }
                let kind = rng.weighted(&w);
                let of_kind: Vec<&AKey> = keys.iter().filter(|k| kind_index(k) == kind).collect();
                Some((*rng.pick(&of_kind)).clone())
            }
        };
        let Some(k) = chosen else { break };
        // probes and fault counters
        match &k {
            AKey::Drop(..) => c.inc("fault_message_dropped"),
            AKey::Crash(i) => {
                c.inc("fault_actor_crashed");
                if rf.net.all().iter().any(|e| e.1 == *i) {
                    c.inc("probe_crash_with_message_in_flight");
                }
                if !rf.timers[*i].is_empty() {
                    c.inc("probe_crash_with_timers_armed");
                }
                if !rf.choices[*i].is_empty() {
                    c.inc("probe_crash_with_choices_pending");
                }
            }
            AKey::Timeout(..) => c.inc("fault_timer_fired"),
            AKey::Select(..) => c.inc("fault_random_selected"),
            AKey::Deliver(s, d, m) => {
                c.inc("steps_deliver");
                if !delivered_once.insert((*s, *d, m.clone())) {
                    if matches!(rf.net, RefNet::Dup(..)) {
                        c.inc("fault_message_redelivered");
                    }
                }
            }
        }
        fnv(&mut sig, crate::rng::hash_str(&format!("{:?}", k)));
        let (nx, _) = real_steps.remove(&k).unwrap();
        let rnx = ref_steps.remove(&k).unwrap();
        // bias: crash the destination of a message that has just been sent
        if sc.picks.is_none() && (rng.below(100) as u8) < sc.crash_after_send_pct {
            let before: BTreeSet<Env> = rf.net.all().into_iter().collect();
            if let Some(e) = rnx.net.all().into_iter().find(|e| !before.contains(e)) {
                force_crash_of = Some(e.1);
            }
        }
        taken.push(k);
        real = nx;
        rf = rnx;
    }
    if v.is_empty() {
        states.push(real.clone());
    }
    c.add("walk_steps", taken.len() as u64);
    dedup(&mut v);
    WalkOutcome { states, taken, violations: v, counters: c, signature: sig }
}

fn fnv(h: &mut u64, v: u64) {
    *h = (*h ^ v).wrapping_mul(0x0000_0100_0000_01b3);
}

fn dedup(v: &mut Vec<Violation>) {
    let mut seen = BTreeSet::new();
    v.retain(|x| seen.insert((x.property.clone(), x.class.clone())));
}
