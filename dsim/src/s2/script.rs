//! Table-driven "script" actors: the generated workload of S2. Handler semantics live in
//! `Table::eval_*` and are shared by the real `Actor` impl and the reference stepper (they are the
//! workload, not the system under test).

use crate::rng::Rng;
use serde::{Deserialize, Serialize};
use stateright::actor::{Actor, Envelope, Id, Out};
use stateright::{Rewrite, RewritePlan};
use std::borrow::Cow;
use std::sync::Arc;

#[derive(Clone, Debug, PartialEq, Eq, Hash, PartialOrd, Ord, Serialize, Deserialize)]
pub struct M {
    pub tag: u8,
    pub who: Option<Id>,
}
impl Rewrite<Id> for M {
    fn rewrite<S>(&self, plan: &RewritePlan<Id, S>) -> Self {
        M { tag: self.tag, who: self.who.map(|i| plan.rewrite(&i)) }
    }
}

/// Local state of a script actor.
#[derive(Clone, Debug, PartialEq, Eq, Hash, PartialOrd, Ord, Serialize)]
pub struct S {
    pub v: u8,
    pub peer: Option<Id>,
    /// Messages handed to this actor, in order (only when the table asks for logging).
    pub log: Vec<LogEntry>,
}
#[derive(Clone, Debug, PartialEq, Eq, Hash, PartialOrd, Ord, Serialize)]
pub struct LogEntry {
    pub src: Id,
    pub tag: u8,
}
impl Rewrite<Id> for LogEntry {
    fn rewrite<S>(&self, plan: &RewritePlan<Id, S>) -> Self {
        LogEntry { src: plan.rewrite(&self.src), tag: self.tag }
    }
}
impl Rewrite<Id> for S {
    fn rewrite<S2>(&self, plan: &RewritePlan<Id, S2>) -> Self {
        S { v: self.v, peer: self.peer.map(|i| plan.rewrite(&i)), log: self.log.rewrite(plan) }
    }
}

#[derive(Clone, Debug, PartialEq, Eq, Hash, PartialOrd, Ord, Serialize)]
pub struct HEv {
    pub incoming: bool,
    pub src: Id,
    pub dst: Id,
    pub msg: M,
}
impl Rewrite<Id> for HEv {
    fn rewrite<S>(&self, plan: &RewritePlan<Id, S>) -> Self {
        HEv { incoming: self.incoming, src: plan.rewrite(&self.src), dst: plan.rewrite(&self.dst), msg: self.msg.rewrite(plan) }
    }
}
#[derive(Clone, Debug, PartialEq, Eq, Hash, PartialOrd, Ord, Serialize, Default)]
pub struct Hist(pub Vec<HEv>);
impl Rewrite<Id> for Hist {
    fn rewrite<S>(&self, plan: &RewritePlan<Id, S>) -> Self {
        Hist(self.0.rewrite(plan))
    }
}

/// History hook configuration (`C` of the actor model).
#[derive(Clone, Debug, Serialize, Deserialize, PartialEq)]
pub struct HCfg {
    /// 0 = never, 1 = all, 2 = even tags only
    pub rec_in: u8,
    pub rec_out: u8,
    pub cap: usize,
}
fn rec(mode: u8, cap: usize, h: &Hist, incoming: bool, env: Envelope<&M>) -> Option<Hist> {
    let wanted = match mode {
        0 => false,
        1 => true,
        _ => env.msg.tag % 2 == 0,
    };
    if !wanted || h.0.len() >= cap {
        return None;
    }
    let mut n = h.clone();
    n.0.push(HEv { incoming, src: env.src, dst: env.dst, msg: env.msg.clone() });
    Some(n)
}
pub fn rec_in(cfg: &HCfg, h: &Hist, env: Envelope<&M>) -> Option<Hist> {
    rec(cfg.rec_in, cfg.cap, h, true, env)
}
pub fn rec_out(cfg: &HCfg, h: &Hist, env: Envelope<&M>) -> Option<Hist> {
    rec(cfg.rec_out, cfg.cap, h, false, env)
}

#[derive(Clone, Debug, Serialize, Deserialize, PartialEq)]
pub enum Dst {
    Abs(u8),
    Src,
    Me,
    Peer,
}
#[derive(Clone, Debug, Serialize, Deserialize, PartialEq)]
pub enum Who {
    Nobody,
    Me,
    Src,
    Abs(u8),
}
#[derive(Clone, Debug, Serialize, Deserialize, PartialEq)]
pub enum Cmd {
    Send { dst: Dst, tag: u8, who: Who },
    /// `Out::broadcast`: the same message to each listed actor, in list order.
    Broadcast { dsts: Vec<u8>, tag: u8, who: Who },
    SetTimer(u8),
    CancelTimer(u8),
    Choose { key: u8, opts: Vec<u8> },
    Unchoose(u8),
}
#[derive(Clone, Debug, Serialize, Deserialize, PartialEq, Default)]
pub struct Row {
    /// `Some(v)`: the handler writes the state (making the `Cow` owned, even if `v` is unchanged).
    pub set: Option<u8>,
    pub remember_src: bool,
    pub cmds: Vec<Cmd>,
}
#[derive(Clone, Debug, Serialize, Deserialize, PartialEq, Default)]
pub struct Table {
    pub start_v: u8,
    pub start: Vec<Cmd>,
    /// ((state, tag), row)
    pub msg: Vec<((u8, u8), Row)>,
    /// ((state, timer), row)
    pub timer: Vec<((u8, u8), Row)>,
    /// ((state, random), row)
    pub random: Vec<((u8, u8), Row)>,
    pub log: bool,
}

/// A command with every reference resolved.
#[derive(Clone, Debug, PartialEq)]
pub enum RCmd {
    Send(Id, M),
    /// emitted through `Out::broadcast`; semantically the sends in list order
    Bcast(Vec<Id>, M),
    SetTimer(u8),
    CancelTimer(u8),
    /// empty options = remove the key
    Choose(String, Vec<u8>),
}

/// Expands broadcasts into the individual sends they stand for.
pub fn flat(cmds: Vec<RCmd>) -> Vec<RCmd> {
    let mut out = Vec::with_capacity(cmds.len());
    for c in cmds {
        match c {
            RCmd::Bcast(ds, m) => out.extend(ds.into_iter().map(|d| RCmd::Send(d, m.clone()))),
            c => out.push(c),
        }
    }
    out
}

pub struct Effect {
    /// `Some` iff the handler made the state owned.
    pub new_state: Option<S>,
    pub cmds: Vec<RCmd>,
}

pub fn key_name(k: u8) -> String {
    format!("k{}", k)
}

impl Table {
    fn resolve(&self, cmds: &[Cmd], me: Id, src: Option<Id>, st: &S) -> Vec<RCmd> {
        cmds.iter()
            .map(|c| match c {
                Cmd::Send { dst, tag, who } => {
                    let d = match dst {
                        Dst::Abs(i) => Id::from(*i as usize),
                        Dst::Src => src.unwrap_or(me),
                        Dst::Me => me,
                        Dst::Peer => st.peer.unwrap_or(me),
                    };
                    let w = match who {
                        Who::Nobody => None,
                        Who::Me => Some(me),
                        Who::Src => src,
                        Who::Abs(i) => Some(Id::from(*i as usize)),
                    };
                    RCmd::Send(d, M { tag: *tag, who: w })
                }
                Cmd::Broadcast { dsts, tag, who } => {
                    let w = match who {
                        Who::Nobody => None,
                        Who::Me => Some(me),
                        Who::Src => src,
                        Who::Abs(i) => Some(Id::from(*i as usize)),
                    };
                    RCmd::Bcast(dsts.iter().map(|i| Id::from(*i as usize)).collect(), M { tag: *tag, who: w })
                }
                Cmd::SetTimer(t) => RCmd::SetTimer(*t),
                Cmd::CancelTimer(t) => RCmd::CancelTimer(*t),
                Cmd::Choose { key, opts } => RCmd::Choose(key_name(*key), opts.clone()),
                Cmd::Unchoose(key) => RCmd::Choose(key_name(*key), vec![]),
            })
            .collect()
    }
    pub fn eval_start(&self, me: Id) -> (S, Vec<RCmd>) {
        let st = S { v: self.start_v, peer: None, log: vec![] };
        let cmds = self.resolve(&self.start, me, None, &st);
        (st, cmds)
    }
    fn apply(&self, row: Option<&Row>, me: Id, src: Option<Id>, st: &S, log: Option<LogEntry>) -> Effect {
        let mut new_state: Option<S> = None;
        if let Some(l) = log {
            let mut n = st.clone();
            n.log.push(l);
            new_state = Some(n);
        }
        let Some(row) = row else { return Effect { new_state, cmds: vec![] } };
        if row.set.is_some() || row.remember_src {
            let mut n = new_state.take().unwrap_or_else(|| st.clone());
            if let Some(v) = row.set {
                n.v = v;
            }
            if row.remember_src {
                n.peer = src.or(n.peer);
            }
            new_state = Some(n);
        }
        // commands are resolved against the state the handler started from
        let cmds = self.resolve(&row.cmds, me, src, st);
        Effect { new_state, cmds }
    }
    pub fn eval_msg(&self, me: Id, st: &S, src: Id, m: &M) -> Effect {
        let row = self.msg.iter().find(|(k, _)| *k == (st.v, m.tag)).map(|(_, r)| r);
        let log = if self.log { Some(LogEntry { src, tag: m.tag }) } else { None };
        self.apply(row, me, Some(src), st, log)
    }
    pub fn eval_timer(&self, me: Id, st: &S, t: u8) -> Effect {
        let row = self.timer.iter().find(|(k, _)| *k == (st.v, t)).map(|(_, r)| r);
        self.apply(row, me, None, st, None)
    }
    pub fn eval_random(&self, me: Id, st: &S, r: u8) -> Effect {
        let row = self.random.iter().find(|(k, _)| *k == (st.v, r)).map(|(_, r)| r);
        self.apply(row, me, None, st, None)
    }
}

/// The real actor.
#[derive(Clone, Debug)]
pub struct ScriptActor(pub Arc<Table>);

fn emit(cmds: Vec<RCmd>, o: &mut Out<ScriptActor>) {
    for c in cmds {
        match c {
            RCmd::Send(d, m) => o.send(d, m),
            RCmd::Bcast(ds, m) => o.broadcast(&ds, &m),
            RCmd::SetTimer(t) => o.set_timer(t, stateright::actor::model_timeout()),
            RCmd::CancelTimer(t) => o.cancel_timer(t),
            RCmd::Choose(k, opts) => {
                if opts.is_empty() {
                    o.remove_random(k)
                } else {
                    o.choose_random(k, opts)
                }
            }
        }
    }
}

impl Actor for ScriptActor {
    type Msg = M;
    type State = S;
    type Timer = u8;
    type Random = u8;
    fn on_start(&self, id: Id, o: &mut Out<Self>) -> S {
        let (s, cmds) = self.0.eval_start(id);
        emit(cmds, o);
        s
    }
    fn on_msg(&self, id: Id, state: &mut Cow<S>, src: Id, msg: M, o: &mut Out<Self>) {
        let e = self.0.eval_msg(id, state, src, &msg);
        if let Some(n) = e.new_state {
            *state = Cow::Owned(n);
        }
        emit(e.cmds, o);
    }
    fn on_timeout(&self, id: Id, state: &mut Cow<S>, timer: &u8, o: &mut Out<Self>) {
        let e = self.0.eval_timer(id, state, *timer);
        if let Some(n) = e.new_state {
            *state = Cow::Owned(n);
        }
        emit(e.cmds, o);
    }
    fn on_random(&self, id: Id, state: &mut Cow<S>, random: &u8, o: &mut Out<Self>) {
        let e = self.0.eval_random(id, state, *random);
        if let Some(n) = e.new_state {
            *state = Cow::Owned(n);
        }
        emit(e.cmds, o);
    }
}

#[derive(Clone, Copy, Debug, Serialize, Deserialize, PartialEq, Eq)]
pub enum NetKind {
    Ordered,
    Dup,
    NonDup,
}

#[derive(Clone, Debug, Serialize, Deserialize)]
pub struct System {
    pub tables: Vec<Table>,
    pub net: NetKind,
    pub lossy: bool,
    pub max_crashes: usize,
    pub hist: HCfg,
    /// (src, dst, tag) initially in the network
    pub init_net: Vec<(u8, u8, u8)>,
    /// configure the crash budget before adding the actors (builder calls commute)
    #[serde(default)]
    pub crashes_first: bool,
}

#[derive(Clone, Debug)]
pub struct SysGen {
    pub max_actors: usize,
    pub states: u8,
    pub tags: u8,
    pub timers: u8,
    pub randoms: u8,
    pub use_timers: bool,
    pub use_random: bool,
    pub log: bool,
    pub row_pct: u64,
    pub max_crashes: usize,
}

impl Default for SysGen {
    fn default() -> Self {
        SysGen { max_actors: 4, states: 3, tags: 3, timers: 2, randoms: 2, use_timers: true, use_random: true, log: false, row_pct: 60, max_crashes: 2 }
    }
}

fn gen_cmds(rng: &mut Rng, g: &SysGen, n_actors: usize, max: u64) -> Vec<Cmd> {
    // rarely a long batch (library code that sorts or chunks a handler's output only misbehaves
    // beyond a certain length); its sends go to actors that do not exist, so nobody answers
    let long = rng.chance(1, 60);
    let k = if long { rng.range(21, 48) } else { rng.below(max + 1) };
    (0..k)
        .map(|_| {
            if long && rng.chance(2, 3) {
                return Cmd::Send { dst: Dst::Abs(n_actors as u8 + rng.below(2) as u8), tag: rng.below(g.tags as u64) as u8, who: Who::Nobody };
            }
            let mut w = vec![6u64, 0, 0, 0, 0, 1];
            if g.use_timers {
                w[1] = 2;
                w[2] = 1;
            }
            if g.use_random {
                w[3] = 2;
                w[4] = 1;
            }
            match rng.weighted(&w) {
                0 => Cmd::Send {
                    dst: match rng.below(8) {
                        0 | 1 => Dst::Src,
                        2 => Dst::Me,
                        3 => Dst::Peer,
                        // occasionally a non-existent actor
                        4 if rng.chance(1, 6) => Dst::Abs(n_actors as u8 + rng.below(2) as u8),
                        _ => Dst::Abs(rng.below(n_actors as u64) as u8),
                    },
                    tag: rng.below(g.tags as u64) as u8,
                    who: match rng.below(6) {
                        0 => Who::Me,
                        1 => Who::Src,
                        2 => Who::Abs(rng.below(n_actors as u64) as u8),
                        _ => Who::Nobody,
                    },
                },
                1 => Cmd::SetTimer(rng.below(g.timers as u64) as u8),
                2 => Cmd::CancelTimer(rng.below(g.timers as u64) as u8),
                3 => {
                    let n = rng.range(1, 3);
                    Cmd::Choose { key: rng.below(2) as u8, opts: (0..n).map(|_| rng.below(g.randoms as u64) as u8).collect() }
                }
                4 => Cmd::Unchoose(rng.below(2) as u8),
                _ => Cmd::Broadcast {
                    // possibly empty, with repeats, possibly including the sender itself
                    dsts: (0..rng.below(4)).map(|_| rng.below(n_actors as u64) as u8).collect(),
                    tag: rng.below(g.tags as u64) as u8,
                    who: if rng.chance(1, 4) { Who::Me } else { Who::Nobody },
                },
            }
        })
        .collect()
}

fn gen_row(rng: &mut Rng, g: &SysGen, n_actors: usize) -> Row {
    Row {
        set: if rng.chance(3, 5) { Some(rng.below(g.states as u64) as u8) } else { None },
        remember_src: rng.chance(1, 8),
        cmds: gen_cmds(rng, g, n_actors, 3),
    }
}

pub fn gen_table(rng: &mut Rng, g: &SysGen, n_actors: usize) -> Table {
    let mut t = Table { start_v: rng.below(g.states as u64) as u8, start: gen_cmds(rng, g, n_actors, 3), log: g.log, ..Default::default() };
    for s in 0..g.states {
        for tag in 0..g.tags {
            if rng.chance(g.row_pct, 100) {
                t.msg.push(((s, tag), gen_row(rng, g, n_actors)));
            } else if rng.chance(1, 10) {
                // explicit no-op row
                t.msg.push(((s, tag), Row::default()));
            }
        }
        if g.use_timers {
            for tm in 0..g.timers {
                if rng.chance(g.row_pct, 100) {
                    let mut r = gen_row(rng, g, n_actors);
                    if rng.chance(1, 4) {
                        // "renew only": the classic no-op-with-timer shape
                        r = Row { set: None, remember_src: false, cmds: vec![Cmd::SetTimer(tm)] };
                    }
                    t.timer.push(((s, tm), r));
                }
            }
        }
        if g.use_random {
            for r in 0..g.randoms {
                if rng.chance(g.row_pct, 100) {
                    t.random.push(((s, r), gen_row(rng, g, n_actors)));
                }
            }
        }
    }
    t
}

pub fn gen_system(rng: &mut Rng, g: &SysGen) -> System {
    let n = 1 + rng.usize_below(g.max_actors);
    let same_tables = rng.chance(1, 4);
    let first = gen_table(rng, g, n);
    let tables: Vec<Table> = (0..n).map(|i| if i == 0 || same_tables { first.clone() } else { gen_table(rng, g, n) }).collect();
    let net = *rng.pick(&[NetKind::Ordered, NetKind::Dup, NetKind::NonDup]);
    let init_net = if rng.chance(1, 3) {
        (0..rng.range(1, 4)).map(|_| (rng.below(n as u64) as u8, rng.below(n as u64 + 1) as u8, rng.below(g.tags as u64) as u8)).collect()
    } else {
        vec![]
    };
    System {
        tables,
        net,
        lossy: rng.chance(1, 2),
        max_crashes: if g.max_crashes == 0 { 0 } else { rng.usize_below(g.max_crashes + 1) },
        hist: HCfg { rec_in: rng.below(3) as u8, rec_out: rng.below(3) as u8, cap: 24 },
        init_net,
        crashes_first: rng.chance(1, 3),
    }
}
