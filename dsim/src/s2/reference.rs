//! Reference stepper for actor systems, transcribed from the statements of C06/C07/C09
//! (DESIGN.md appendix C) — not from `model.rs` — plus the canonical dump used to compare it with
//! the real `ActorModelState`.

use super::script::*;
use serde::Serialize;
use stateright::actor::{ActorModelState, Envelope, Id, Network};
use std::collections::{BTreeMap, BTreeSet, VecDeque};

pub type Env = (usize, usize, M); // (src, dst, msg)

#[derive(Clone, Debug, PartialEq, Eq, Hash, PartialOrd, Ord, Serialize)]
pub enum RefNet {
    Ordered(BTreeMap<(usize, usize), VecDeque<M>>),
    NonDup(BTreeMap<Env, usize>),
    Dup(BTreeSet<Env>, Option<Env>),
}

impl RefNet {
    pub fn new(kind: NetKind) -> Self {
        match kind {
            NetKind::Ordered => RefNet::Ordered(BTreeMap::new()),
            NetKind::NonDup => RefNet::NonDup(BTreeMap::new()),
            NetKind::Dup => RefNet::Dup(BTreeSet::new(), None),
        }
    }
    pub fn send(&mut self, e: Env) {
        match self {
            RefNet::Ordered(f) => f.entry((e.0, e.1)).or_default().push_back(e.2),
            RefNet::NonDup(b) => *b.entry(e).or_insert(0) += 1,
            RefNet::Dup(s, _) => {
                s.insert(e);
            }
        }
    }
    pub fn deliverable(&self) -> Vec<Env> {
        match self {
            RefNet::Ordered(f) => f.iter().map(|((s, d), q)| (*s, *d, q.front().unwrap().clone())).collect(),
            RefNet::NonDup(b) => b.keys().cloned().collect(),
            RefNet::Dup(s, _) => s.iter().cloned().collect(),
        }
    }
    pub fn all(&self) -> Vec<Env> {
        match self {
            RefNet::Ordered(f) => f.iter().flat_map(|((s, d), q)| q.iter().map(move |m| (*s, *d, m.clone()))).collect(),
            RefNet::NonDup(b) => b.iter().flat_map(|(e, n)| std::iter::repeat(e.clone()).take(*n)).collect(),
            RefNet::Dup(s, _) => s.iter().cloned().collect(),
        }
    }
    pub fn len(&self) -> usize {
        self.all().len()
    }
    fn remove_one(&mut self, e: &Env) {
        match self {
            RefNet::Ordered(f) => {
                let q = f.get_mut(&(e.0, e.1)).expect("flow");
                let head = q.pop_front();
                assert_eq!(head.as_ref(), Some(&e.2), "only heads are deliverable");
                if q.is_empty() {
                    f.remove(&(e.0, e.1));
                }
            }
            RefNet::NonDup(b) => {
                let n = b.get_mut(e).expect("copy");
                *n -= 1;
                if *n == 0 {
                    b.remove(e);
                }
            }
            RefNet::Dup(s, _) => {
                s.remove(e);
            }
        }
    }
    pub fn consume_on_deliver(&mut self, e: &Env) {
        match self {
            RefNet::Dup(_, last) => *last = Some(e.clone()),
            _ => self.remove_one(e),
        }
    }
    pub fn drop_one(&mut self, e: &Env) {
        self.remove_one(e)
    }
    pub fn is_ordered(&self) -> bool {
        matches!(self, RefNet::Ordered(_))
    }
}

#[derive(Clone, Debug, PartialEq, Eq, Hash, PartialOrd, Ord, Serialize)]
pub struct RefState {
    pub actors: Vec<S>,
    pub net: RefNet,
    pub timers: Vec<BTreeSet<u8>>,
    pub choices: Vec<BTreeMap<String, Vec<u8>>>,
    pub down: Vec<bool>,
    pub hist: Hist,
}

#[derive(Clone, Debug, PartialEq, Eq, Hash, PartialOrd, Ord, Serialize)]
pub enum AKey {
    Deliver(usize, usize, M),
    Drop(usize, usize, M),
    Timeout(usize, u8),
    Crash(usize),
    Select(usize, String, u8),
}

pub struct RefModel<'a> {
    pub sys: &'a System,
}

impl<'a> RefModel<'a> {
    fn apply(&self, st: &mut RefState, i: usize, cmds: Vec<RCmd>) {
        for c in crate::s2::script::flat(cmds) {
            match c {
                RCmd::Bcast(..) => unreachable!(),
                RCmd::Send(d, m) => {
                    let env = Envelope { src: Id::from(i), dst: d, msg: &m };
                    if let Some(h) = rec_out(&self.sys.hist, &st.hist, env) {
                        st.hist = h;
                    }
                    st.net.send((i, usize::from(d), m));
                }
                RCmd::SetTimer(t) => {
                    st.timers[i].insert(t);
                }
                RCmd::CancelTimer(t) => {
                    st.timers[i].remove(&t);
                }
                RCmd::Choose(k, opts) => {
                    if opts.is_empty() {
                        st.choices[i].remove(&k);
                    } else {
                        st.choices[i].insert(k, opts);
                    }
                }
            }
        }
    }
    pub fn init(&self) -> RefState {
        let n = self.sys.tables.len();
        let mut st = RefState {
            actors: Vec::new(),
            net: RefNet::new(self.sys.net),
            timers: vec![BTreeSet::new(); n],
            choices: vec![BTreeMap::new(); n],
            down: vec![false; n],
            hist: Hist::default(),
        };
        for (s, d, tag) in &self.sys.init_net {
            st.net.send((*s as usize, *d as usize, M { tag: *tag, who: None }));
        }
        for i in 0..n {
            let (s, cmds) = self.sys.tables[i].eval_start(Id::from(i));
            st.actors.push(s);
            self.apply(&mut st, i, cmds);
        }
        st
    }
    /// All steps the statement admits from `st`, with their successors (a step whose successor
    /// equals `st` is filtered out by the caller).
    pub fn steps(&self, st: &RefState) -> Vec<(AKey, RefState)> {
        let n = st.actors.len();
        let mut out = Vec::new();
        for e in st.net.deliverable() {
            let (s, d, m) = e.clone();
            if self.sys.lossy {
                let mut nx = st.clone();
                nx.net.drop_one(&e);
                out.push((AKey::Drop(s, d, m.clone()), nx));
            }
            if d < n && !st.down[d] {
                let eff = self.sys.tables[d].eval_msg(Id::from(d), &st.actors[d], Id::from(s), &m);
                let touched = eff.new_state.is_some();
                // (an empty broadcast emits nothing)
                if !st.net.is_ordered() && !touched && crate::s2::script::flat(eff.cmds.clone()).is_empty() {
                    continue; // changes nothing: no transition on unordered networks
                }
                let mut nx = st.clone();
                let env = Envelope { src: Id::from(s), dst: Id::from(d), msg: &m };
                let h = rec_in(&self.sys.hist, &st.hist, env);
                nx.net.consume_on_deliver(&e);
                if let Some(ns) = eff.new_state {
                    nx.actors[d] = ns;
                }
                if let Some(h) = h {
                    nx.hist = h;
                }
                self.apply(&mut nx, d, eff.cmds);
                out.push((AKey::Deliver(s, d, m), nx));
            }
        }
        for i in 0..n {
            if st.down[i] {
                continue; // a crashed actor stays silent
            }
            for t in st.timers[i].iter() {
                let eff = self.sys.tables[i].eval_timer(Id::from(i), &st.actors[i], *t);
                let mut nx = st.clone();
                nx.timers[i].remove(t);
                if let Some(ns) = eff.new_state {
                    nx.actors[i] = ns;
                }
                self.apply(&mut nx, i, eff.cmds);
                out.push((AKey::Timeout(i, *t), nx));
            }
            for (k, opts) in st.choices[i].iter() {
                for r in opts {
                    let eff = self.sys.tables[i].eval_random(Id::from(i), &st.actors[i], *r);
                    let mut nx = st.clone();
                    nx.choices[i].remove(k);
                    if let Some(ns) = eff.new_state {
                        nx.actors[i] = ns;
                    }
                    self.apply(&mut nx, i, eff.cmds);
                    out.push((AKey::Select(i, k.clone(), *r), nx));
                }
            }
        }
        let n_down = st.down.iter().filter(|d| **d).count();
        if n_down < self.sys.max_crashes {
            for i in 0..n {
                if !st.down[i] {
                    let mut nx = st.clone();
                    nx.down[i] = true;
                    nx.timers[i].clear();
                    nx.choices[i].clear();
                    out.push((AKey::Crash(i), nx));
                }
            }
        }
        out
    }
}

pub type RealState = ActorModelState<ScriptActor, Hist>;

/// Reads the content of the real network straight from its representation.
pub fn dump_net(n: &Network<M>) -> RefNet {
    match n {
        Network::Ordered(map) => RefNet::Ordered(
            map.iter().map(|((s, d), q)| ((usize::from(*s), usize::from(*d)), q.iter().cloned().collect())).collect(),
        ),
        Network::UnorderedNonDuplicating(b) => {
            RefNet::NonDup(b.iter().map(|(e, n)| ((usize::from(e.src), usize::from(e.dst), e.msg.clone()), *n)).collect())
        }
        Network::UnorderedDuplicating(s, last) => RefNet::Dup(
            s.iter().map(|e| (usize::from(e.src), usize::from(e.dst), e.msg.clone())).collect(),
            last.as_ref().map(|e| (usize::from(e.src), usize::from(e.dst), e.msg.clone())),
        ),
    }
}

/// Canonical structural rendering of a real state, in the reference's vocabulary.
pub fn dump_real(s: &RealState) -> RefState {
    let n = s.actor_states.len();
    RefState {
        actors: s.actor_states.iter().map(|a| (**a).clone()).collect(),
        net: dump_net(&s.network),
        timers: (0..n).map(|i| s.timers_set.get(i).map(|t| t.iter().cloned().collect()).unwrap_or_default()).collect(),
        choices: (0..n)
            .map(|i| s.random_choices.get(i).map(|c| c.map.iter().map(|(k, v)| (k.clone(), v.clone())).collect()).unwrap_or_default())
            .collect(),
        down: (0..n).map(|i| s.crashed.get(i).cloned().unwrap_or(false)).collect(),
        hist: s.history.clone(),
    }
}

pub fn describe_diff(a: &RefState, b: &RefState) -> String {
    let mut parts = Vec::new();
    if a.actors != b.actors {
        parts.push("actor-state");
    }
    if a.net != b.net {
        parts.push("network");
    }
    if a.timers != b.timers {
        parts.push("timers");
    }
    if a.choices != b.choices {
        parts.push("choices");
    }
    if a.down != b.down {
        parts.push("crash-flags");
    }
    if a.hist != b.hist {
        parts.push("history");
    }
    parts.join("+")
}
