//! C04 — state identity. Equal canonical dump ⇒ equal fingerprint; different dump ⇒ different
//! sequence of typed hasher calls; `==` ⇔ equal dump.

use super::reference::*;
use super::script::*;
use crate::common::{Counters, Violation};
use crate::rng::Rng;
use stateright::actor::{Envelope, Id, Network, RandomChoices, Timers};
use stateright::util::{DenseNatMap, HashableHashMap, HashableHashSet, VectorClock};
use std::collections::{BTreeMap, BTreeSet};
use std::hash::{Hash, Hasher};

/// Records the typed calls a `Hash` impl makes.
#[derive(Default)]
pub struct RecHasher(pub Vec<u8>);
impl RecHasher {
    fn rec(&mut self, tag: u8, bytes: &[u8]) {
        self.0.push(tag);
        self.0.extend_from_slice(&(bytes.len() as u32).to_le_bytes());
        self.0.extend_from_slice(bytes);
    }
}
impl Hasher for RecHasher {
    fn finish(&self) -> u64 {
        // FNV over the recording, so that nested "hash the element hashes" schemes stay
        // deterministic and content-sensitive
        let mut h = 0xcbf2_9ce4_8422_2325u64;
        for b in &self.0 {
            h = (h ^ *b as u64).wrapping_mul(0x0000_0100_0000_01b3);
        }
        h
    }
    fn write(&mut self, bytes: &[u8]) {
        self.rec(0, bytes)
    }
    fn write_u8(&mut self, i: u8) {
        self.rec(1, &[i])
    }
    fn write_u16(&mut self, i: u16) {
        self.rec(2, &i.to_le_bytes())
    }
    fn write_u32(&mut self, i: u32) {
        self.rec(3, &i.to_le_bytes())
    }
    fn write_u64(&mut self, i: u64) {
        self.rec(4, &i.to_le_bytes())
    }
    fn write_usize(&mut self, i: usize) {
        self.rec(5, &(i as u64).to_le_bytes())
    }
    fn write_i32(&mut self, i: i32) {
        self.rec(6, &i.to_le_bytes())
    }
    fn write_i64(&mut self, i: i64) {
        self.rec(7, &i.to_le_bytes())
    }
    fn write_u128(&mut self, i: u128) {
        self.rec(8, &i.to_le_bytes())
    }
}

pub fn calls<T: Hash>(t: &T) -> Vec<u8> {
    let mut h = RecHasher::default();
    t.hash(&mut h);
    h.0
}

/// Pool of (dump → fingerprint, calls) and (calls → dump) with collision checks.
#[derive(Default)]
pub struct Pool {
    by_dump: BTreeMap<String, (u64, String)>,
    by_calls: BTreeMap<Vec<u8>, String>,
    pub checked: u64,
}

impl Pool {
    /// `what` names the value family, `dump` is the canonical rendering, `origin` how it was built.
    pub fn add(&mut self, what: &str, dump: String, fp: u64, calls: Vec<u8>, origin: &str, diff: impl Fn(&str, &str) -> String, v: &mut Vec<Violation>) {
        self.checked += 1;
        // values of different families are never compared with each other
        let dump = format!("{}: {}", what, dump);
        let mut calls = calls;
        calls.extend_from_slice(what.as_bytes());
        match self.by_dump.get(&dump) {
            Some((fp0, origin0)) => {
                if *fp0 != fp {
                    v.push(Violation::new("C04", format!("split:{}", what), format!("equal values hash differently ({} vs {}): {}", origin0, origin, dump)));
                }
            }
            None => {
                self.by_dump.insert(dump.clone(), (fp, origin.to_string()));
            }
        }
        match self.by_calls.get(&calls) {
            Some(d0) => {
                if *d0 != dump {
                    let comp = diff(d0, &dump);
                    v.push(Violation::new("C04", format!("merge:{}", comp), format!("different values feed the hasher identically ({}): {} vs {}", what, d0, dump)));
                }
            }
            None => {
                if self.by_calls.len() < 200_000 {
                    self.by_calls.insert(calls, dump);
                }
            }
        }
    }
}

fn rebuild_timers(t: &BTreeSet<u8>, rng: &mut Rng) -> Timers<u8> {
    let mut items: Vec<u8> = t.iter().cloned().collect();
    rng.shuffle(&mut items);
    let mut out = Timers::new();
    // insert, remove and re-insert to vary table layout
    for i in &items {
        out.set(*i);
    }
    if let Some(f) = items.first() {
        out.cancel(f);
        out.set(*f);
    }
    out
}

fn rebuild_choices(c: &BTreeMap<String, Vec<u8>>, rng: &mut Rng) -> RandomChoices<u8> {
    let mut items: Vec<(String, Vec<u8>)> = c.iter().map(|(k, v)| (k.clone(), v.clone())).collect();
    rng.shuffle(&mut items);
    let mut out = RandomChoices::default();
    for (k, v) in items {
        out.insert(k, v);
    }
    out
}

fn env_of(e: &Env) -> Envelope<M> {
    Envelope { src: Id::from(e.0), dst: Id::from(e.1), msg: e.2.clone() }
}

fn rebuild_net(n: &RefNet, rng: &mut Rng) -> Network<M> {
    match n {
        RefNet::Ordered(f) => {
            let mut envs: Vec<Vec<Env>> = f.iter().map(|((s, d), q)| q.iter().map(|m| (*s, *d, m.clone())).collect()).collect();
            // interleave flows in a different order (order inside a flow must be kept)
            rng.shuffle(&mut envs);
            if rng.chance(1, 2) {
                // flows whose ring buffers wrap around (the physical layout must not matter)
                let mut map = std::collections::BTreeMap::new();
                for flow in envs {
                    let n = flow.len();
                    let mut q: std::collections::VecDeque<M> = std::collections::VecDeque::with_capacity(n);
                    let k = rng.usize_below(n.max(1));
                    for _ in 0..k {
                        q.push_back(M { tag: 255, who: None });
                    }
                    for _ in 0..k {
                        q.pop_front();
                    }
                    let key = (Id::from(flow[0].0), Id::from(flow[0].1));
                    for e in flow {
                        q.push_back(e.2);
                    }
                    map.insert(key, q);
                }
                return Network::Ordered(map);
            }
            Network::new_ordered(envs.into_iter().flatten().map(|e| env_of(&e)))
        }
        RefNet::NonDup(b) => {
            let mut envs: Vec<Env> = b.iter().flat_map(|(e, n)| std::iter::repeat(e.clone()).take(*n)).collect();
            rng.shuffle(&mut envs);
            Network::new_unordered_nonduplicating(envs.iter().map(env_of))
        }
        RefNet::Dup(s, last) => {
            let mut envs: Vec<Env> = s.iter().cloned().collect();
            rng.shuffle(&mut envs);
            if rng.chance(1, 2) {
                // a set built with other hasher keys and spare capacity
                let mut set: HashableHashSet<Envelope<M>> = HashableHashSet::with_capacity_and_hasher(64, ahash::RandomState::new());
                for e in &envs {
                    set.insert(env_of(e));
                }
                Network::UnorderedDuplicating(set, last.as_ref().map(env_of))
            } else {
                Network::new_unordered_duplicating_with_last_msg(envs.iter().map(env_of), last.as_ref().map(env_of))
            }
        }
    }
}

/// Rebuilds a real state from its dump with shuffled insertion orders, other hasher keys, excess
/// capacity and remove-then-reinsert sequences.
pub fn rebuild(d: &RefState, rng: &mut Rng) -> RealState {
    RealState {
        actor_states: d.actors.iter().map(|a| std::sync::Arc::new(a.clone())).collect(),
        network: rebuild_net(&d.net, rng),
        timers_set: d.timers.iter().map(|t| rebuild_timers(t, rng)).collect(),
        random_choices: d.choices.iter().map(|c| rebuild_choices(c, rng)).collect(),
        crashed: d.down.clone(),
        history: d.hist.clone(),
    }
}

/// Neighbours of a state: one behaviour-relevant component moved or flipped.
pub fn neighbours(d: &RefState, rng: &mut Rng) -> Vec<(String, RefState)> {
    let n = d.actors.len();
    let mut out = Vec::new();
    // flip a crash flag
    let i = rng.usize_below(n);
    let mut x = d.clone();
    x.down[i] = !x.down[i];
    out.push(("crash-flag".to_string(), x));
    if n >= 2 {
        // move a timer to the adjacent actor
        for i in 0..n {
            let j = (i + 1) % n;
            if let Some(t) = d.timers[i].iter().next().cloned() {
                if !d.timers[j].contains(&t) {
                    let mut x = d.clone();
                    x.timers[i].remove(&t);
                    x.timers[j].insert(t);
                    out.push(("timer-owner".to_string(), x));
                    break;
                }
            }
        }
        // move a pending choice to the adjacent actor
        for i in 0..n {
            let j = (i + 1) % n;
            if let Some((k, opts)) = d.choices[i].iter().next().map(|(k, v)| (k.clone(), v.clone())) {
                if !d.choices[j].contains_key(&k) {
                    let mut x = d.clone();
                    x.choices[i].remove(&k);
                    x.choices[j].insert(k, opts);
                    out.push(("choice-owner".to_string(), x));
                    break;
                }
            }
        }
    }
    // add / remove a timer, a pending choice
    let i = rng.usize_below(n);
    let mut x = d.clone();
    if !x.timers[i].remove(&0) {
        x.timers[i].insert(0);
    }
    out.push(("timer".to_string(), x));
    let mut x = d.clone();
    if x.choices[i].remove("k0").is_none() {
        x.choices[i].insert("k0".to_string(), vec![0]);
    } else if let Some(opts) = d.choices[i].get("k0") {
        // or change only the options
        let mut o = opts.clone();
        o.push(1);
        x.choices[i].insert("k0".to_string(), o);
    }
    out.push(("choice".to_string(), x));
    // local state of one actor, one history event
    let i = rng.usize_below(n);
    let mut x = d.clone();
    x.actors[i].v = x.actors[i].v.wrapping_add(1);
    out.push(("actor-state".to_string(), x));
    let mut x = d.clone();
    if x.hist.0.pop().is_none() {
        x.hist.0.push(HEv { incoming: true, src: Id::from(0), dst: Id::from(0), msg: M { tag: 0, who: None } });
    }
    out.push(("history".to_string(), x));
    // in-flight message: drop one / retarget one
    let all = d.net.all();
    if let Some(e) = all.first() {
        let mut x = d.clone();
        x.net.drop_one_any(e);
        out.push(("in-flight-message".to_string(), x));
    }
    out
}

impl RefNet {
    /// Removes one copy of `e` wherever it is (only used to build neighbours).
    pub fn drop_one_any(&mut self, e: &Env) {
        match self {
            RefNet::Ordered(f) => {
                if let Some(q) = f.get_mut(&(e.0, e.1)) {
                    if let Some(p) = q.iter().position(|m| *m == e.2) {
                        q.remove(p);
                    }
                    if q.is_empty() {
                        f.remove(&(e.0, e.1));
                    }
                }
            }
            RefNet::NonDup(b) => {
                if let Some(n) = b.get_mut(e) {
                    *n -= 1;
                    if *n == 0 {
                        b.remove(e);
                    }
                }
            }
            RefNet::Dup(s, _) => {
                s.remove(e);
            }
        }
    }
}

fn state_diff(a: &str, b: &str) -> String {
    // dumps are Debug renderings of RefState; find the first differing field by name
    let fields = ["actors", "net", "timers", "choices", "down", "hist"];
    let seg = |s: &str, i: usize| -> String {
        let start = s.find(&format!("{}:", fields[i])).unwrap_or(0);
        let end = if i + 1 < fields.len() { s.find(&format!(", {}:", fields[i + 1])).unwrap_or(s.len()) } else { s.len() };
        s[start..end.max(start)].to_string()
    };
    let names = ["actor-state", "network", "timers", "choices", "crash-flags", "history"];
    let mut out = Vec::new();
    for i in 0..fields.len() {
        if seg(a, i) != seg(b, i) {
            out.push(names[i]);
        }
    }
    out.join("+")
}

/// The behaviour-relevant content: an ordered flow without messages, or an envelope with zero
/// copies, is the same as no entry at all.
fn canon(mut d: RefState) -> RefState {
    match &mut d.net {
        RefNet::Ordered(f) => f.retain(|_, q| !q.is_empty()),
        RefNet::NonDup(b) => b.retain(|_, n| *n > 0),
        RefNet::Dup(..) => {}
    }
    d
}

/// Identity checks over the states of one walk.
pub fn check_states(states: &[RealState], rng: &mut Rng, pool: &mut Pool, v: &mut Vec<Violation>, c: &mut Counters) {
    let mut reals: Vec<(String, RealState)> = Vec::new();
    for s in states {
        let d = canon(dump_real(s));
        let key = format!("{:?}", d);
        pool.add("ActorModelState", key.clone(), stateright::verif_fingerprint(s), calls(s), "reached", state_diff, v);
        c.inc("identity_states_reached");
        // perturbed rebuilds must not split
        let r = rebuild(&d, rng);
        let rd = canon(dump_real(&r));
        if rd == d {
            pool.add("ActorModelState", key.clone(), stateright::verif_fingerprint(&r), calls(&r), "rebuilt (shuffled insertion, other hasher keys, capacity)", state_diff, v);
            c.inc("identity_perturbed_rebuilds");
            if !(r == *s) {
                v.push(Violation::new("C04", "eq-mismatch:rebuild", format!("a state rebuilt with another insertion order is not == to the original: {}", key)));
            }
        }
        reals.push((key.clone(), s.clone()));
        // neighbours must not merge
        if rng.chance(1, 3) {
            for (what, nd) in neighbours(&d, rng) {
                if nd == d {
                    continue;
                }
                let nr = rebuild(&nd, rng);
                let nkey = format!("{:?}", nd);
                c.inc(&format!("identity_neighbour_{}", what));
                pool.add("ActorModelState", nkey.clone(), stateright::verif_fingerprint(&nr), calls(&nr), &format!("neighbour ({})", what), state_diff, v);
                if nr == *s {
                    v.push(Violation::new("C04", format!("eq-mismatch:{}", state_diff(&key, &nkey)), format!("states that differ in {} compare equal: {} vs {}", what, key, nkey)));
                }
            }
        }
    }
    // == must agree with the dump on pairs of reached states
    for _ in 0..reals.len().min(24) {
        let a = &reals[rng.usize_below(reals.len())];
        let b = &reals[rng.usize_below(reals.len())];
        let eq_dump = a.0 == b.0;
        if (a.1 == b.1) != eq_dump {
            v.push(Violation::new("C04", format!("eq-mismatch:{}", state_diff(&a.0, &b.0)), format!("== is {} but the states {} agree on every component: {} vs {}", a.1 == b.1, if eq_dump { "do" } else { "do not" }, a.0, b.0)));
        }
    }
}

// ---------------------------------------------------------------------------------------------
// Container families (values built from run data): sets/maps side by side, nested, clocks, maps.

fn set_of(items: &[u8], rng: &mut Rng) -> HashableHashSet<u8> {
    let mut v = items.to_vec();
    rng.shuffle(&mut v);
    let mut s = if rng.chance(1, 2) { HashableHashSet::with_capacity(32) } else { HashableHashSet::new() };
    for i in &v {
        s.insert(*i);
    }
    if let Some(f) = v.first() {
        if rng.chance(1, 2) {
            s.remove(f);
            s.insert(*f);
        }
    }
    s
}
fn map_of(items: &[(u8, u8)], rng: &mut Rng) -> HashableHashMap<u8, u8> {
    let mut v = items.to_vec();
    rng.shuffle(&mut v);
    let mut m = if rng.chance(1, 2) { HashableHashMap::with_capacity(32) } else { HashableHashMap::new() };
    for (k, x) in &v {
        m.insert(*k, *x);
    }
    m
}
fn split(items: &[u8], rng: &mut Rng, parts: usize) -> Vec<Vec<u8>> {
    let mut out = vec![Vec::new(); parts];
    for i in items {
        out[rng.usize_below(parts)].push(*i);
    }
    for o in out.iter_mut() {
        o.sort();
        o.dedup();
    }
    out
}
fn no_diff(_: &str, _: &str) -> String {
    "adjacent-collections".to_string()
}

pub fn check_containers(rng: &mut Rng, pool: &mut Pool, v: &mut Vec<Violation>, c: &mut Counters) {
    let universe: Vec<u8> = (0..rng.range(1, 4) as u8).collect();
    for _ in 0..6 {
        // A: two sets side by side in a tuple; B: a vector of sets; the same elements distributed differently
        let parts = split(&universe, rng, 2);
        let a = (set_of(&parts[0], rng), set_of(&parts[1], rng));
        pool.add("(HashableHashSet,HashableHashSet)", format!("{:?}", parts), stateright::verif_fingerprint(&a), calls(&a), "tuple", no_diff, v);
        let parts3 = split(&universe, rng, 3);
        let b: Vec<HashableHashSet<u8>> = parts3.iter().map(|p| set_of(p, rng)).collect();
        pool.add("Vec<HashableHashSet>", format!("{:?}", parts3), stateright::verif_fingerprint(&b), calls(&b), "vec", no_diff, v);
        // C: two maps side by side
        let kv: Vec<Vec<(u8, u8)>> = parts.iter().map(|p| p.iter().map(|k| (*k, k % 2)).collect()).collect();
        let m = (map_of(&kv[0], rng), map_of(&kv[1], rng));
        pool.add("(HashableHashMap,HashableHashMap)", format!("{:?}", kv), stateright::verif_fingerprint(&m), calls(&m), "tuple", no_diff, v);
        // D: map of sets (nested), and a struct-like pair (Timers, Timers)
        let mut nested: HashableHashMap<u8, HashableHashSet<u8>> = HashableHashMap::new();
        let mut nd: BTreeMap<u8, Vec<u8>> = BTreeMap::new();
        for (i, p) in parts3.iter().enumerate() {
            if !p.is_empty() || rng.chance(1, 2) {
                nested.insert(i as u8, set_of(p, rng));
                nd.insert(i as u8, p.clone());
            }
        }
        pool.add("HashableHashMap<_,HashableHashSet>", format!("{:?}", nd), stateright::verif_fingerprint(&nested), calls(&nested), "nested", no_diff, v);
        let tp: Vec<Timers<u8>> = parts.iter().map(|p| rebuild_timers(&p.iter().cloned().collect(), rng)).collect();
        pool.add("Vec<Timers>", format!("{:?}", parts), stateright::verif_fingerprint(&tp), calls(&tp), "timers", no_diff, v);
        c.add("identity_container_values", 5);
    }
    // W: wide actor-system states (more actors than bits in a machine word), crash flags differ
    {
        let n = *rng.pick(&[2usize, 9, 63, 64, 65, 66, 130]);
        let base = RefState {
            actors: vec![S { v: 0, peer: None, log: vec![] }; n],
            net: RefNet::NonDup(Default::default()),
            timers: vec![Default::default(); n],
            choices: vec![Default::default(); n],
            down: vec![false; n],
            hist: Hist::default(),
        };
        let mut variants = vec![base.clone()];
        for i in [0usize, 1, n - 1, n.saturating_sub(64), n.saturating_sub(65), rng.usize_below(n)] {
            let mut x = base.clone();
            x.down[i.min(n - 1)] = true;
            variants.push(x);
        }
        for x in variants {
            let r = rebuild(&x, rng);
            let key = format!("{} actors, down {:?}", n, x.down.iter().enumerate().filter(|(_, d)| **d).map(|(i, _)| i).collect::<Vec<_>>());
            pool.add("wide ActorModelState", key, stateright::verif_fingerprint(&r), calls(&r), "wide", |_, _| "crash-flags".to_string(), v);
        }
        c.add("identity_wide_states", 7);
    }
    // E: vector clocks with trailing zeros; F: dense maps
    for _ in 0..4 {
        let len = rng.range(0, 4) as usize;
        let base: Vec<u32> = (0..len).map(|_| rng.below(3) as u32).collect();
        let mut trimmed = base.clone();
        while trimmed.last() == Some(&0) {
            trimmed.pop();
        }
        let mut padded = base.clone();
        for _ in 0..rng.below(3) {
            padded.push(0);
        }
        let (x, y) = (VectorClock::from(base.clone()), VectorClock::from(padded));
        pool.add("VectorClock", format!("{:?}", trimmed), stateright::verif_fingerprint(&x), calls(&x), "as built", no_diff, v);
        pool.add("VectorClock", format!("{:?}", trimmed), stateright::verif_fingerprint(&y), calls(&y), "zero padded", no_diff, v);
        if x != y {
            v.push(Violation::new("C04", "eq-mismatch:VectorClock", format!("{:?} != its zero-padded copy", base)));
        }
        // two clocks side by side
        let other: Vec<u32> = (0..rng.range(0, 3)).map(|_| 1 + rng.below(2) as u32).collect();
        let pair = (VectorClock::from(base.clone()), VectorClock::from(other.clone()));
        pool.add("(VectorClock,VectorClock)", format!("{:?}|{:?}", trimmed, other), stateright::verif_fingerprint(&pair), calls(&pair), "pair", no_diff, v);
        let dm: DenseNatMap<usize, u32> = base.iter().cloned().collect::<Vec<u32>>().into();
        pool.add("DenseNatMap", format!("{:?}", base), stateright::verif_fingerprint(&dm), calls(&dm), "from vec", no_diff, v);
        c.add("identity_container_values", 4);
    }
    // T: consistency testers (they are the history component of register-harness states). The same
    // per-thread operations recorded under different interleavings: a sequential-consistency tester
    // only knows the per-thread sequences; a linearizability tester also knows, per operation, how
    // many operations of each peer had returned when it was invoked (real-time precedence).
    {
        use stateright::semantics::register::{Register, RegisterOp, RegisterRet};
        use stateright::semantics::{ConsistencyTester, LinearizabilityTester, SequentialConsistencyTester};
        let threads = rng.range(2, 3) as usize;
        let scripts: Vec<Vec<(u8, u8)>> = (0..threads).map(|_| (0..rng.range(1, 2)).map(|_| (rng.below(2) as u8, rng.below(2) as u8)).collect()).collect();
        // the last operation of a thread may stay in flight
        let in_flight: Vec<bool> = (0..threads).map(|_| rng.chance(1, 3)).collect();
        let mut lin_seen: Vec<(String, LinearizabilityTester<u8, Register<u8>>)> = Vec::new();
        let mut sc_seen: Vec<(String, SequentialConsistencyTester<u8, Register<u8>>)> = Vec::new();
        for _ in 0..4 {
            let mut lin: LinearizabilityTester<u8, Register<u8>> = LinearizabilityTester::new(Register(0));
            let mut sc: SequentialConsistencyTester<u8, Register<u8>> = SequentialConsistencyTester::new(Register(0));
            // position in each script: 2*i = about to invoke op i, 2*i+1 = about to return from op i
            let mut pos = vec![0usize; threads];
            let mut completed = vec![0usize; threads];
            let mut lin_dump: Vec<Vec<String>> = vec![Vec::new(); threads];
            let mut sc_dump: Vec<Vec<String>> = vec![Vec::new(); threads];
            loop {
                let movable: Vec<usize> = (0..threads)
                    .filter(|t| {
                        let end = 2 * scripts[*t].len() - if in_flight[*t] { 1 } else { 0 };
                        pos[*t] < end
                    })
                    .collect();
                if movable.is_empty() {
                    break;
                }
                let t = *rng.pick(&movable);
                let (opc, retc) = scripts[t][pos[t] / 2];
                if pos[t] % 2 == 0 {
                    let op = if opc == 0 { RegisterOp::Read } else { RegisterOp::Write(retc) };
                    let _ = lin.on_invoke(t as u8, op.clone());
                    let _ = sc.on_invoke(t as u8, op.clone());
                    let snap: Vec<(usize, usize)> = (0..threads).filter(|p| *p != t && completed[*p] > 0).map(|p| (p, completed[p])).collect();
                    lin_dump[t].push(format!("{:?} after {:?}", op, snap));
                    sc_dump[t].push(format!("{:?}", op));
                } else {
                    let ret = if opc == 0 { RegisterRet::ReadOk(retc) } else { RegisterRet::WriteOk };
                    let _ = lin.on_return(t as u8, ret.clone());
                    let _ = sc.on_return(t as u8, ret.clone());
                    completed[t] += 1;
                    lin_dump[t].last_mut().unwrap().push_str(&format!(" -> {:?}", ret));
                    sc_dump[t].last_mut().unwrap().push_str(&format!(" -> {:?}", ret));
                }
                pos[t] += 1;
            }
            let (ld, sd) = (format!("{:?}", lin_dump), format!("{:?}", sc_dump));
            pool.add("LinearizabilityTester", ld.clone(), stateright::verif_fingerprint(&lin), calls(&lin), "interleaving", |_, _| "tester-history".to_string(), v);
            pool.add("SequentialConsistencyTester", sd.clone(), stateright::verif_fingerprint(&sc), calls(&sc), "interleaving", |_, _| "tester-history".to_string(), v);
            for (d0, t0) in &lin_seen {
                if (*d0 == ld) != (*t0 == lin) {
                    v.push(Violation::new("C04", "eq-mismatch:LinearizabilityTester", format!("== says {} for histories {} and {}", *t0 == lin, d0, ld)));
                }
            }
            for (d0, t0) in &sc_seen {
                if (*d0 == sd) != (*t0 == sc) {
                    v.push(Violation::new("C04", "eq-mismatch:SequentialConsistencyTester", format!("== says {} for histories {} and {}", *t0 == sc, d0, sd)));
                }
            }
            lin_seen.push((ld, lin));
            sc_seen.push((sd, sc));
        }
        c.add("identity_tester_values", 8);
    }
}
