//! C16 — the ordered reliable link: wrapped actors over networks that drop, duplicate and reorder.

use crate::common::{Counters, Violation};
use crate::rng::Rng;
use serde::{Deserialize, Serialize};
use stateright::actor::ordered_reliable_link::{ActorWrapper, MsgWrapper, TimerWrapper};
use stateright::actor::{Actor, ActorModel, ActorModelAction, Id, LossyNetwork, Network, Out};
use stateright::Model;
use std::borrow::Cow;
use std::cell::RefCell;
use std::collections::BTreeMap;

#[derive(Clone, Debug, PartialEq)]
enum Ev {
    Sent { from: usize, to: usize, payload: u32 },
    Handed { to: usize, from: usize, payload: u32 },
}
thread_local!(static REC: RefCell<Option<Vec<Ev>>> = const { RefCell::new(None) });
fn record(e: Ev) {
    REC.with(|r| {
        if let Some(v) = r.borrow_mut().as_mut() {
            v.push(e)
        }
    });
}
fn recording<R>(f: impl FnOnce() -> R) -> (R, Vec<Ev>) {
    REC.with(|r| *r.borrow_mut() = Some(Vec::new()));
    let out = f();
    let evs = REC.with(|r| r.borrow_mut().take().unwrap_or_default());
    (out, evs)
}

/// The actor behind the link: sends a script, logs what it is handed.
#[derive(Clone, Debug, Serialize, Deserialize)]
pub struct OrlUser {
    pub idx: usize,
    /// (destination, payload) sent at start
    pub start: Vec<(u8, u32)>,
    /// (destination, payload) sent one per accepted message
    pub reactive: Vec<(u8, u32)>,
    /// 0 = never ignores; otherwise ignores payloads divisible by this while an even number of
    /// messages has been accepted
    pub ignore_mod: u32,
    /// answers every first-hand message (payload < 100 000) with payload + 100 000 WITHOUT touching
    /// its state (a stateless responder: the handler's state stays borrowed)
    #[serde(default)]
    pub echo: bool,
}
#[derive(Clone, Debug, PartialEq, Eq, Hash)]
pub struct OrlState {
    pub received: Vec<(Id, u32)>,
    pub reactive_sent: usize,
}
impl Actor for OrlUser {
    type Msg = u32;
    type State = OrlState;
    type Timer = ();
    type Random = ();
    fn on_start(&self, _id: Id, o: &mut Out<Self>) -> OrlState {
        for (d, p) in &self.start {
            record(Ev::Sent { from: self.idx, to: *d as usize, payload: *p });
            o.send(Id::from(*d as usize), *p);
        }
        OrlState { received: vec![], reactive_sent: 0 }
    }
    fn on_msg(&self, _id: Id, state: &mut Cow<OrlState>, src: Id, msg: u32, o: &mut Out<Self>) {
        record(Ev::Handed { to: self.idx, from: usize::from(src), payload: msg });
        if self.echo {
            if msg < 100_000 {
                record(Ev::Sent { from: self.idx, to: usize::from(src), payload: msg + 100_000 });
                o.send(src, msg + 100_000);
            }
            return; // state untouched
        }
        if self.ignore_mod != 0 && msg % self.ignore_mod == 0 && state.received.len() % 2 == 0 {
            return; // ignored: state untouched, nothing sent
        }
        let st = state.to_mut();
        st.received.push((src, msg));
        if let Some((d, p)) = self.reactive.get(st.reactive_sent) {
            st.reactive_sent += 1;
            record(Ev::Sent { from: self.idx, to: *d as usize, payload: *p });
            o.send(Id::from(*d as usize), *p);
        }
    }
}

#[derive(Clone, Debug, Serialize, Deserialize)]
pub struct OrlScenario {
    pub users: Vec<OrlUser>,
    /// "dup" | "nondup" | "ordered"
    pub net: String,
    pub lossy: bool,
    pub steps: usize,
    pub quiesce_steps: usize,
    pub walk_seed: u64,
    /// deliver, drop, timeout
    pub weights: [u64; 3],
    #[serde(default)]
    pub picks: Option<Vec<String>>,
}

pub fn gen_orl(seed: u64) -> OrlScenario {
    let mut rng = Rng::new(seed);
    let n = rng.range(2, 3) as usize;
    let mut users = Vec::new();
    for i in 0..n {
        let mut ctr = 0u32;
        let mut mk = |rng: &mut Rng, k: u64| -> Vec<(u8, u32)> {
            (0..rng.below(k + 1))
                .map(|_| {
                    ctr += 1;
                    // mostly other actors, occasionally itself
                    let mut d = rng.below(n as u64) as u8;
                    if d as usize == i && rng.chance(4, 5) {
                        d = ((i + 1) % n) as u8;
                    }
                    (d, i as u32 * 1000 + ctr)
                })
                .collect()
        };
        let start = mk(&mut rng, 4);
        let reactive = mk(&mut rng, 3);
        let echo = rng.chance(1, 5);
        users.push(OrlUser { idx: i, start, reactive, ignore_mod: if rng.chance(1, 4) { rng.range(2, 3) as u32 } else { 0 }, echo });
    }
    if users.iter().all(|u| u.start.is_empty()) {
        users[0].start.push((1, 901));
        users[0].start.push((1, 902));
    }
    OrlScenario {
        users,
        net: rng.pick(&["dup", "dup", "nondup", "nondup", "ordered"]).to_string(),
        lossy: rng.chance(2, 3),
        steps: rng.range(5, 70) as usize,
        quiesce_steps: 40,
        walk_seed: rng.next_u64(),
        weights: [*rng.pick(&[4u64, 10]), *rng.pick(&[1u64, 3, 6]), *rng.pick(&[1u64, 3])],
        picks: None,
    }
}

type W = ActorWrapper<OrlUser>;
type Act = ActorModelAction<MsgWrapper<u32>, TimerWrapper<()>, ()>;

pub struct OrlOutcome {
    pub violations: Vec<Violation>,
    pub counters: Counters,
    pub signature: u64,
    pub steps: u64,
    pub taken: Vec<String>,
}

fn is_prefix(a: &[u32], b: &[u32]) -> bool {
    a.len() <= b.len() && a == &b[..a.len()]
}

pub fn run_orl(sc: &OrlScenario) -> OrlOutcome {
    let net: Network<MsgWrapper<u32>> = match sc.net.as_str() {
        "dup" => Network::new_unordered_duplicating([]),
        "nondup" => Network::new_unordered_nonduplicating([]),
        _ => Network::new_ordered([]),
    };
    let model: ActorModel<W, (), ()> = ActorModel::new((), ())
        .actors(sc.users.iter().cloned().map(ActorWrapper::with_default_timeout))
        .init_network(net)
        .lossy_network(if sc.lossy { LossyNetwork::Yes } else { LossyNetwork::No });
    let mut rng = Rng::new(sc.walk_seed);
    let mut v: Vec<Violation> = Vec::new();
    let mut c = Counters::default();
    let mut sig = 0xcbf2_9ce4_8422_2325u64;
    let mut sent: BTreeMap<(usize, usize), Vec<u32>> = BTreeMap::new();
    let mut handed: BTreeMap<(usize, usize), Vec<u32>> = BTreeMap::new();
    let mut taken: Vec<String> = Vec::new();
    let apply = |evs: Vec<Ev>, sent: &mut BTreeMap<(usize, usize), Vec<u32>>, handed: &mut BTreeMap<(usize, usize), Vec<u32>>| {
        for e in evs {
            match e {
                Ev::Sent { from, to, payload } => sent.entry((from, to)).or_default().push(payload),
                Ev::Handed { to, from, payload } => handed.entry((from, to)).or_default().push(payload),
            }
        }
    };
    let (inits, evs) = recording(|| model.init_states());
    apply(evs, &mut sent, &mut handed);
    let mut st = inits.into_iter().next().unwrap();
    let mut pick_iter = sc.picks.clone().map(|p| p.into_iter());
    let total = sc.steps + sc.quiesce_steps;
    let mut drained_checks = 0u64;
    for step in 0..total {
        // invariants at this state
        for ((s, r), h) in &handed {
            let empty = Vec::new();
            let se = sent.get(&(*s, *r)).unwrap_or(&empty);
            if !is_prefix(h, se) {
                let class = if h.len() >= 2 && h[..h.len() - 1].contains(h.last().unwrap()) {
                    "not-prefix:duplicate"
                } else if se.contains(h.last().unwrap_or(&0)) && h.len() <= se.len() {
                    // a later message was handed over while an earlier one is still missing
                    "not-prefix:gap-accept"
                } else {
                    "not-prefix:reorder"
                };
                v.push(Violation::new("C16", class, format!("{}->{}: handed over {:?} is not a prefix of sent {:?} ({} network, lossy={})", s, r, h, se, sc.net, sc.lossy)));
            }
        }
        for ((s, r), se) in &sent {
            if *r >= sc.users.len() {
                continue;
            }
            let empty = Vec::new();
            let h = handed.get(&(*s, *r)).unwrap_or(&empty);
            let pending: Vec<u32> = st.actor_states[*s].verif_pending().into_iter().filter(|(d, _, _)| usize::from(*d) == *r).map(|(_, _, m)| m).collect();
            // never acknowledged and discarded before it was handed over
            for m in se {
                if !h.contains(m) && !pending.contains(m) && v.is_empty() {
                    v.push(Violation::new("C16", "acked-unhanded", format!("{}->{}: message {} is no longer pending acknowledgement but was never handed over (handed {:?}, sent {:?})", s, r, m, h, se)));
                }
            }
            if pending.is_empty() {
                drained_checks += 1;
                if h != se && v.is_empty() {
                    v.push(Violation::new("C16", "drained-unequal", format!("{}->{}: nothing pending acknowledgement but handed over {:?} != sent {:?}", s, r, h, se)));
                }
            }
        }
        if !v.is_empty() {
            break;
        }
        let quiescing = step >= sc.steps;
        let mut acts: Vec<Act> = Vec::new();
        model.actions(&st, &mut acts);
        // canonical order; only steps that change something
        let mut eff: BTreeMap<String, Act> = BTreeMap::new();
        for a in acts {
            if quiescing && matches!(a, ActorModelAction::Drop(_)) {
                continue; // faults have stopped
            }
            eff.entry(format!("{:?}", a)).or_insert(a);
        }
        let keys: Vec<String> = eff.keys().filter(|k| model.next_state(&st, eff[*k].clone()).is_some()).cloned().collect();
        if keys.is_empty() {
            break;
        }
        let chosen = if let Some(it) = pick_iter.as_mut() {
            let mut f = None;
            for p in it.by_ref() {
                if keys.contains(&p) {
                    f = Some(p);
                    break;
                }
            }
            match f {
                Some(k) => k,
                None => break,
            }
        } else if quiescing {
            // fair: rotate through the enabled steps
            keys[step % keys.len()].clone()
        } else {
            let kind = |k: &String| {
                if k.starts_with("Deliver") {
                    0
                } else if k.starts_with("Drop") {
                    1
                } else {
                    2
                }
            };
            let mut w = [0u64; 3];
            for k in &keys {
                w[kind(k)] = sc.weights[kind(k)].max(1);
            }
            let kd = rng.weighted(&w);
            let of: Vec<&String> = keys.iter().filter(|k| kind(k) == kd).collect();
            (*rng.pick(&of)).clone()
        };
        let act = eff.remove(&chosen).unwrap();
        match &act {
            ActorModelAction::Drop(_) => c.inc("fault_message_dropped"),
            ActorModelAction::Timeout(..) => c.inc("fault_resend_timer_fired"),
            ActorModelAction::Deliver { msg: MsgWrapper::Deliver(..), .. } => c.inc("steps_deliver_data"),
            ActorModelAction::Deliver { msg: MsgWrapper::Ack(..), .. } => c.inc("steps_deliver_ack"),
            _ => {}
        }
        let (nx, evs) = recording(|| model.next_state(&st, act));
        if evs.iter().any(|e| matches!(e, Ev::Handed { .. })) {
            c.inc("handovers");
        }
        apply(evs, &mut sent, &mut handed);
        sig = (sig ^ crate::rng::hash_str(&chosen)).wrapping_mul(0x0000_0100_0000_01b3);
        taken.push(chosen);
        st = nx.unwrap();
    }
    c.add("walk_steps", taken.len() as u64);
    c.add("probe_drained_states_checked", drained_checks);
    let all_drained = sent.iter().all(|((s, r), _)| *r >= sc.users.len() || st.actor_states[*s].verif_pending().iter().all(|(d, _, _)| usize::from(*d) != *r));
    if all_drained && !sent.is_empty() {
        c.inc("probe_run_ended_fully_acknowledged");
    }
    if sc.users.iter().any(|u| u.ignore_mod != 0) {
        c.inc("runs_with_ignoring_receiver");
    }
    let steps = taken.len() as u64;
    OrlOutcome { violations: v, counters: c, signature: sig, steps, taken }
}
