//! C09 (checker level): the real BFS/DFS checkers, under the scheduler, on small generated actor
//! systems with a crash budget; the set of visited states must equal the reference's reachable set
//! (which distinguishes crash configurations).

use super::reference::*;
use super::script::*;
use super::walk::build_model;
use crate::common::{Counters, Violation};
use crate::rng::Rng;
use crate::sched::{Sched, SchedSpec, Shared, SimShutdown};
use serde::{Deserialize, Serialize};
use stateright::{Checker, Expectation, Model, Path};
use std::collections::{BTreeSet, VecDeque};
use std::panic::{catch_unwind, AssertUnwindSafe};

#[derive(Clone, Debug, Serialize, Deserialize)]
pub struct CheckerScenario {
    pub sys: System,
    pub dfs: bool,
    pub threads: usize,
    pub sched: SchedSpec,
}

pub fn gen_checker(seed: u64) -> CheckerScenario {
    let mut rng = Rng::new(seed);
    let mut g = SysGen::default();
    g.max_actors = 3;
    g.states = 2;
    g.tags = 2;
    g.timers = 1;
    g.randoms = 2;
    g.use_timers = rng.chance(1, 2);
    g.use_random = rng.chance(1, 3);
    g.row_pct = 50;
    g.log = false;
    g.max_crashes = 2;
    let mut sys = gen_system(&mut rng, &g);
    sys.max_crashes = 1 + rng.usize_below(2);
    // no history, and the boundary caps the number of messages in flight
    sys.hist = HCfg { rec_in: 0, rec_out: 0, cap: rng.range(1, 3) as usize };
    sys.init_net.truncate(1);
    let mut sched = crate::s1::gen::gen_sched(&mut rng, 2_000_000);
    sched.block_size = *rng.pick(&[1usize, 3, 8, 0]);
    CheckerScenario { sys, dfs: rng.chance(1, 2), threads: 1 + rng.usize_below(3), sched }
}

fn in_bound(cap: usize, net_len: usize) -> bool {
    net_len <= cap
}

pub struct CkOutcome {
    pub violations: Vec<Violation>,
    pub counters: Counters,
    pub trace_hash: u64,
    pub steps: u64,
    pub clock: u64,
    pub states: usize,
}

pub fn run_checker(sc: &CheckerScenario) -> CkOutcome {
    let mut v = Vec::new();
    let mut c = Counters::default();
    let cap = sc.sys.hist.cap;
    // reference reachable set inside the boundary
    let rm = RefModel { sys: &sc.sys };
    let init = rm.init();
    let mut reach: BTreeSet<RefState> = BTreeSet::new();
    let mut q = VecDeque::new();
    if in_bound(cap, init.net.len()) {
        reach.insert(init.clone());
        q.push_back(init);
    }
    let mut too_big = false;
    while let Some(s) = q.pop_front() {
        if reach.len() > 1500 {
            too_big = true;
            break;
        }
        for (_, nx) in rm.steps(&s) {
            if nx != s && in_bound(cap, nx.net.len()) && reach.insert(nx.clone()) {
                q.push_back(nx);
            }
        }
    }
    if too_big {
        c.inc("checker_level_skipped_too_big");
        return CkOutcome { violations: v, counters: c, trace_hash: 0, steps: 0, clock: 0, states: 0 };
    }
    let model = build_model(&sc.sys)
        .within_boundary(|cfg, s| s.network.len() <= cfg.cap)
        .property(Expectation::Always, "true", |_, _| true);
    let sched = Sched::new(sc.sched.clone());
    let seen: Shared<Vec<RefState>> = Shared::new(Vec::new());
    sched.enter();
    let res = catch_unwind(AssertUnwindSafe(|| {
        let s2 = seen.clone();
        let b = model.checker().threads(sc.threads).visitor(move |p: Path<RealState, walk_action::A>| {
            let d = dump_real(p.last_state());
            s2.with(|l| l.push(d));
        });
        let ch = if sc.dfs { Box::new(b.spawn_dfs().join()) as Box<dyn AnyChecker> } else { Box::new(b.spawn_bfs().join()) as Box<dyn AnyChecker> };
        ch.unique()
    }));
    let aborted = sched.aborted();
    let _ = sched.leave(aborted.is_some());
    match res {
        Err(e) => {
            if !e.is::<SimShutdown>() {
                v.push(Violation::new("C09", "checker-panic", "the checker panicked on a generated actor system".to_string()));
            } else {
                c.inc("checker_level_aborted");
            }
        }
        Ok(unique) => {
            let visited: BTreeSet<RefState> = seen.with(|l| l.iter().cloned().collect());
            c.inc("checker_level_runs");
            c.add("checker_level_reference_states", reach.len() as u64);
            c.add("checker_level_crashed_configurations", reach.iter().filter(|s| s.down.iter().any(|d| *d)).count() as u64);
            let missing: Vec<&RefState> = reach.difference(&visited).collect();
            let extra: Vec<&RefState> = visited.difference(&reach).collect();
            if let Some(m) = missing.first() {
                let class = if missing.iter().any(|s| s.down.iter().any(|d| *d)) { "crash-config-not-explored" } else { "checker-set-mismatch" };
                v.push(Violation::new("C09", class, format!("the {} checker ({} threads) visited {} of {} reference states; e.g. never visited: {:?}", if sc.dfs { "DFS" } else { "BFS" }, sc.threads, visited.len(), reach.len(), m)));
            } else if let Some(x) = extra.first() {
                v.push(Violation::new("C09", "checker-set-mismatch", format!("the checker visited a state the reference cannot reach: {:?}", x)));
            } else if unique != reach.len() {
                v.push(Violation::new("C09", "crash-config-not-explored", format!("unique_state_count {} but the reference has {} distinct states (states with different crash configurations or pending choices were merged)", unique, reach.len())));
            }
        }
    }
    let st = sched.stats();
    CkOutcome { violations: v, counters: c, trace_hash: sched.trace_hash(), steps: st.steps, clock: st.final_clock_ns, states: reach.len() }
}

trait AnyChecker {
    fn unique(&self) -> usize;
}
impl<C: Checker<super::walk::RealModel>> AnyChecker for C {
    fn unique(&self) -> usize {
        self.unique_state_count()
    }
}

pub mod walk_action {
    pub type A = super::super::walk::RealAction;
}
