//! C15 — adapters are transparent: two real actor models (bare actors vs the same actors wrapped
//! in the provided adapters) are walked in lockstep; steps and successor states must correspond
//! one to one, modulo the wrapper constructor.

use super::script::*;
use crate::common::{Counters, Violation};
use crate::rng::Rng;
use choice::{Choice, Never};
use serde::{Deserialize, Serialize};
use stateright::actor::register::{RegisterActor, RegisterMsg};
use stateright::actor::write_once_register::{WORegisterActor, WORegisterMsg};
use stateright::actor::{Actor, ActorModel, ActorModelAction, ActorModelState, Id, LossyNetwork, Network, Out};
use stateright::Model;
use std::borrow::Cow;
use std::collections::BTreeMap;
use std::fmt::Debug;
use std::hash::Hash;
use std::sync::Arc;

/// Canonical, order-insensitive rendering of a state through `Debug` of its parts.
#[derive(Clone, Debug, PartialEq, Eq)]
pub struct GDump {
    pub actors: Vec<String>,
    pub net_kind: &'static str,
    pub net: Vec<String>,
    pub last: String,
    pub timers: Vec<Vec<String>>,
    pub choices: Vec<Vec<String>>,
    pub crashed: Vec<bool>,
}

pub fn gdump<A: Actor>(s: &ActorModelState<A, ()>, strip: fn(&str) -> String) -> GDump
where
    A::Msg: Debug,
{
    let (net_kind, net, last) = match &s.network {
        Network::Ordered(m) => ("ordered", m.iter().map(|(k, q)| format!("{:?}:{:?}", k, q)).collect::<Vec<_>>(), String::new()),
        Network::UnorderedNonDuplicating(b) => {
            let mut v: Vec<String> = b.iter().map(|(e, n)| format!("{:?}x{}", e, n)).collect();
            v.sort();
            ("nondup", v, String::new())
        }
        Network::UnorderedDuplicating(set, last) => {
            let mut v: Vec<String> = set.iter().map(|e| format!("{:?}", e)).collect();
            v.sort();
            ("dup", v, format!("{:?}", last))
        }
    };
    GDump {
        actors: s.actor_states.iter().map(|a| strip(&format!("{:?}", a))).collect(),
        net_kind,
        net,
        last,
        timers: s
            .timers_set
            .iter()
            .map(|t| {
                let mut v: Vec<String> = t.iter().map(|x| format!("{:?}", x)).collect();
                v.sort();
                v
            })
            .collect(),
        choices: s
            .random_choices
            .iter()
            .map(|c| {
                let mut v: Vec<String> = c.map.iter().map(|(k, o)| format!("{}={:?}", k, o)).collect();
                v.sort();
                v
            })
            .collect(),
        crashed: s.crashed.clone(),
    }
}

fn diff(a: &GDump, b: &GDump) -> String {
    let mut p = Vec::new();
    if a.actors != b.actors {
        p.push("actor-state");
    }
    if a.net != b.net || a.last != b.last {
        p.push("network");
    }
    if a.timers != b.timers {
        p.push("timers");
    }
    if a.choices != b.choices {
        p.push("choices");
    }
    if a.crashed != b.crashed {
        p.push("crash-flags");
    }
    p.join("+")
}

fn event_kind<M, T, R>(a: &ActorModelAction<M, T, R>) -> &'static str {
    match a {
        ActorModelAction::Deliver { .. } => "message",
        ActorModelAction::Drop(_) => "drop",
        ActorModelAction::Timeout(..) => "timeout",
        ActorModelAction::Crash(_) => "crash",
        ActorModelAction::SelectRandom { .. } => "random",
    }
}

pub struct LockOutcome {
    pub violations: Vec<Violation>,
    pub counters: Counters,
    pub signature: u64,
    pub steps: u64,
}

/// Walks `ma` (bare) and `mb` (wrapped) in lockstep for up to `steps` steps.
pub fn lockstep<A, B>(
    adapter: &str,
    ma: &ActorModel<A, (), ()>,
    mb: &ActorModel<B, (), ()>,
    strip_b: fn(&str) -> String,
    steps: usize,
    seed: u64,
) -> LockOutcome
where
    A: Actor,
    B: Actor<Msg = A::Msg, Timer = A::Timer, Random = A::Random>,
    A::Msg: Debug + Clone,
{
    lockstep_rep(adapter, ma, mb, strip_b, steps, seed, None)
}

/// The representative functions of both systems, for adapters whose state implements `Rewrite`.
pub type RepFns<A, B> = (fn(&ActorModelState<A, ()>) -> ActorModelState<A, ()>, fn(&ActorModelState<B, ()>) -> ActorModelState<B, ()>);

pub fn lockstep_rep<A, B>(
    adapter: &str,
    ma: &ActorModel<A, (), ()>,
    mb: &ActorModel<B, (), ()>,
    strip_b: fn(&str) -> String,
    steps: usize,
    seed: u64,
    rep: Option<RepFns<A, B>>,
) -> LockOutcome
where
    A: Actor,
    B: Actor<Msg = A::Msg, Timer = A::Timer, Random = A::Random>,
    A::Msg: Debug + Clone,
{
    fn id(s: &str) -> String {
        s.to_string()
    }
    let mut rng = Rng::new(seed);
    let mut v = Vec::new();
    let mut c = Counters::default();
    let mut sig = 0xcbf2_9ce4_8422_2325u64;
    let mut sa = ma.init_states().into_iter().next().unwrap();
    let mut sb = mb.init_states().into_iter().next().unwrap();
    let mut taken = 0u64;
    {
        let (da, db) = (gdump(&sa, id), gdump(&sb, strip_b));
        if da != db {
            v.push(Violation::new("C15", format!("{}:start", adapter), format!("initial states differ in {}: bare {:?} vs wrapped {:?}", diff(&da, &db), da, db)));
        }
    }
    for _ in 0..steps {
        if !v.is_empty() {
            break;
        }
        let cur_a = gdump(&sa, id);
        let cur_b = gdump(&sb, strip_b);
        if let Some((ra, rb)) = rep {
            // symmetry reduction must see the wrapped system as it sees the bare one (ids of actors
            // that do not exist make representative() panic in both: skipped)
            let pa = std::panic::catch_unwind(std::panic::AssertUnwindSafe(|| gdump(&ra(&sa), id)));
            let pb = std::panic::catch_unwind(std::panic::AssertUnwindSafe(|| gdump(&rb(&sb), strip_b)));
            if let (Ok(pa), Ok(pb)) = (pa, pb) {
                c.inc("lockstep_representatives_compared");
                if pa != pb {
                    v.push(Violation::new("C15", format!("{}:representative", adapter), format!("representative() of the wrapped system differs from that of the bare one in {}: bare {:?} vs wrapped {:?}", diff(&pa, &pb), pa, pb)));
                    break;
                }
            }
        }
        let mut aa = Vec::new();
        ma.actions(&sa, &mut aa);
        let mut ab = Vec::new();
        mb.actions(&sb, &mut ab);
        // effective steps by action rendering
        // whether the model takes the action at all (a self-loop is a transition, an ignored action is
        // none: the difference decides whether a state is terminal for eventually-properties)
        let mut raw_a: BTreeMap<String, (&'static str, bool)> = BTreeMap::new();
        let mut raw_b: BTreeMap<String, (&'static str, bool)> = BTreeMap::new();
        let mut ea: BTreeMap<String, (&'static str, ActorModelState<A, ()>, GDump)> = BTreeMap::new();
        for a in aa {
            let key = format!("{:?}", a);
            let kind = event_kind(&a);
            let nx = ma.next_state(&sa, a);
            raw_a.insert(key.clone(), (kind, nx.is_some()));
            if let Some(nx) = nx {
                let d = gdump(&nx, id);
                if d != cur_a {
                    ea.insert(key, (kind, nx, d));
                }
            }
        }
        let mut eb: BTreeMap<String, (&'static str, ActorModelState<B, ()>, GDump)> = BTreeMap::new();
        for a in ab {
            let key = format!("{:?}", a);
            let kind = event_kind(&a);
            let nx = mb.next_state(&sb, a);
            raw_b.insert(key.clone(), (kind, nx.is_some()));
            if let Some(nx) = nx {
                let d = gdump(&nx, strip_b);
                if d != cur_b {
                    eb.insert(key, (kind, nx, d));
                }
            }
        }
        for (k, (kind, _, da)) in &ea {
            match eb.get(k) {
                None => v.push(Violation::new("C15", format!("{}:{}", adapter, kind), format!("step {} changes the bare system but not the wrapped one (the event did not reach the wrapped actor, or its effects were lost)", k))),
                Some((_, _, db)) => {
                    if da != db {
                        v.push(Violation::new("C15", format!("{}:{}", adapter, kind), format!("after {} the systems differ in {}: bare {:?} vs wrapped {:?}", k, diff(da, db), da, db)));
                    }
                }
            }
        }
        for (k, (kind, _, _)) in &eb {
            if !ea.contains_key(k) {
                v.push(Violation::new("C15", format!("{}:{}", adapter, kind), format!("step {} changes the wrapped system but not the bare one", k)));
            }
        }
        if v.is_empty() && raw_a != raw_b {
            for (k, (kind, some)) in &raw_a {
                match raw_b.get(k) {
                    Some((_, s2)) if s2 == some => {}
                    other => v.push(Violation::new("C15", format!("{}:{}", adapter, kind), format!("action {}: the bare system {} it, the wrapped system {}", k, if *some { "takes" } else { "ignores" }, match other { Some((_, true)) => "takes it", Some((_, false)) => "ignores it", None => "does not offer it" }))),
                }
            }
            for (k, (kind, _)) in &raw_b {
                if !raw_a.contains_key(k) {
                    v.push(Violation::new("C15", format!("{}:{}", adapter, kind), format!("action {} is offered by the wrapped system only", k)));
                }
            }
        }
        if !v.is_empty() || ea.is_empty() {
            break;
        }
        let keys: Vec<String> = ea.keys().cloned().collect();
        let k = rng.pick(&keys).clone();
        let (kind, na, _) = ea.remove(&k).unwrap();
        let (_, nb, _) = eb.remove(&k).unwrap();
        c.inc(&format!("lockstep_{}_events", kind));
        sig = (sig ^ crate::rng::hash_str(&k)).wrapping_mul(0x0000_0100_0000_01b3);
        sa = na;
        sb = nb;
        taken += 1;
    }
    c.add("walk_steps", taken);
    let mut seen = std::collections::BTreeSet::new();
    v.retain(|x: &Violation| seen.insert(x.class.clone()));
    LockOutcome { violations: v, counters: c, signature: sig, steps: taken }
}

// ---------------------------------------------------------------------------------------------
// Scenarios

#[derive(Clone, Debug, Serialize, Deserialize)]
pub struct AdapterScenario {
    /// "choice1" | "choice2" | "choice3" | "register" | "woregister" | "vec"
    pub adapter: String,
    pub sys: System,
    /// Per actor: which position of the nesting wraps it.
    pub positions: Vec<u8>,
    pub steps: usize,
    pub walk_seed: u64,
    /// vec client script: (dst, tag)
    #[serde(default)]
    pub script: Vec<(u8, u8)>,
    /// all destinations are existing actors (so that representative() is defined on every state)
    #[serde(default)]
    pub clamped: bool,
}

fn net_of<Msg: Clone + Debug + Eq + Hash>(kind: NetKind) -> Network<Msg> {
    match kind {
        NetKind::Ordered => Network::new_ordered([]),
        NetKind::Dup => Network::new_unordered_duplicating([]),
        NetKind::NonDup => Network::new_unordered_nonduplicating([]),
    }
}

fn base<A: Actor>(sys: &System, actors: Vec<A>) -> ActorModel<A, (), ()> {
    ActorModel::new((), ())
        .actors(actors)
        .init_network(net_of(sys.net))
        .lossy_network(if sys.lossy { LossyNetwork::Yes } else { LossyNetwork::No })
        .max_crashes(sys.max_crashes)
}

fn ident(s: &str) -> String {
    s.to_string()
}
fn strip_server(s: &str) -> String {
    s.strip_prefix("Server(").and_then(|r| r.strip_suffix(')')).unwrap_or(s).to_string()
}

/// A script actor speaking the register protocol: every script message travels as `Internal`,
/// and the client-facing requests are mapped onto script tags.
#[derive(Clone, Debug)]
pub struct RegScript(pub Arc<Table>);
type RMsg = RegisterMsg<u64, char, M>;
fn from_rmsg(m: &RMsg) -> M {
    match m {
        RegisterMsg::Internal(m) => m.clone(),
        RegisterMsg::Put(_, _) => M { tag: 0, who: None },
        RegisterMsg::Get(_) => M { tag: 1, who: None },
        RegisterMsg::PutOk(_) => M { tag: 2, who: None },
        RegisterMsg::GetOk(_, _) => M { tag: 3, who: None },
    }
}
macro_rules! reg_like_actor {
    ($name:ident, $msg:ty, $internal:ident, $conv:ident) => {
        impl $name {
            fn emit(cmds: Vec<RCmd>, o: &mut Out<Self>) {
                for c in cmds {
                    match c {
                        RCmd::Send(d, m) => o.send(d, $internal(m)),
                        RCmd::Bcast(ds, m) => o.broadcast(&ds, &$internal(m)),
                        RCmd::SetTimer(t) => o.set_timer(t, stateright::actor::model_timeout()),
                        RCmd::CancelTimer(t) => o.cancel_timer(t),
                        RCmd::Choose(k, opts) => {
                            if opts.is_empty() {
                                o.remove_random(k)
                            } else {
                                o.choose_random(k, opts)
                            }
                        }
                    }
                }
            }
        }
        impl Actor for $name {
            type Msg = $msg;
            type State = S;
            type Timer = u8;
            type Random = u8;
            fn on_start(&self, id: Id, o: &mut Out<Self>) -> S {
                let (s, cmds) = self.0.eval_start(id);
                Self::emit(cmds, o);
                s
            }
            fn on_msg(&self, id: Id, state: &mut Cow<S>, src: Id, msg: $msg, o: &mut Out<Self>) {
                let e = self.0.eval_msg(id, state, src, &$conv(&msg));
                if let Some(n) = e.new_state {
                    *state = Cow::Owned(n);
                }
                Self::emit(e.cmds, o);
            }
            fn on_timeout(&self, id: Id, state: &mut Cow<S>, timer: &u8, o: &mut Out<Self>) {
                let e = self.0.eval_timer(id, state, *timer);
                if let Some(n) = e.new_state {
                    *state = Cow::Owned(n);
                }
                Self::emit(e.cmds, o);
            }
            fn on_random(&self, id: Id, state: &mut Cow<S>, random: &u8, o: &mut Out<Self>) {
                let e = self.0.eval_random(id, state, *random);
                if let Some(n) = e.new_state {
                    *state = Cow::Owned(n);
                }
                Self::emit(e.cmds, o);
            }
        }
    };
}
/// Script messages without an id inside travel as client-protocol messages (so that Put / Get /
/// PutOk / GetOk reach the wrapped servers too), the others as `Internal`.
fn to_rmsg(m: M) -> RMsg {
    match (m.who, m.tag) {
        (None, 0) => RegisterMsg::Put(7, 'p'),
        (None, 1) => RegisterMsg::Get(8),
        (None, 2) => RegisterMsg::PutOk(9),
        (None, 3) => RegisterMsg::GetOk(10, 'g'),
        _ => RegisterMsg::Internal(m),
    }
}
reg_like_actor!(RegScript, RMsg, to_rmsg, from_rmsg);

#[derive(Clone, Debug)]
pub struct WORegScript(pub Arc<Table>);
type WMsg = WORegisterMsg<u64, char, M>;
fn from_wmsg(m: &WMsg) -> M {
    match m {
        WORegisterMsg::Internal(m) => m.clone(),
        WORegisterMsg::Put(_, _) => M { tag: 0, who: None },
        WORegisterMsg::Get(_) => M { tag: 1, who: None },
        WORegisterMsg::PutOk(_) => M { tag: 2, who: None },
        WORegisterMsg::PutFail(_) => M { tag: 2, who: None },
        WORegisterMsg::GetOk(_, _) => M { tag: 3, who: None },
    }
}
fn to_wmsg(m: M) -> WMsg {
    match (m.who, m.tag) {
        (None, 0) => WORegisterMsg::Put(7, 'p'),
        (None, 1) => WORegisterMsg::Get(8),
        (None, 2) => WORegisterMsg::PutOk(9),
        (None, 3) => WORegisterMsg::GetOk(10, 'g'),
        _ => WORegisterMsg::Internal(m),
    }
}
reg_like_actor!(WORegScript, WMsg, to_wmsg, from_wmsg);

/// Reference scripted client: sends its script, one message per received message, in order.
#[derive(Clone, Debug)]
pub struct RefClient(pub Vec<(Id, M)>);
/// A peer without timers or random choices (the `Vec` client fixes `Timer = ()`, `Random = ()`).
#[derive(Clone, Debug)]
pub struct MiniPeer(pub Arc<Table>);

#[derive(Clone, Debug, PartialEq, Eq, Hash)]
pub enum MiniState {
    Client(usize),
    Peer(S),
}

impl Actor for RefClient {
    type Msg = M;
    type State = usize;
    type Timer = ();
    type Random = ();
    fn on_start(&self, _id: Id, o: &mut Out<Self>) -> usize {
        match self.0.first() {
            Some((d, m)) => {
                o.send(*d, m.clone());
                1
            }
            None => 0,
        }
    }
    fn on_msg(&self, _id: Id, state: &mut Cow<usize>, _src: Id, _msg: M, o: &mut Out<Self>) {
        let sent = **state;
        if sent < self.0.len() {
            let (d, m) = self.0[sent].clone();
            o.send(d, m);
            *state = Cow::Owned(sent + 1);
        }
    }
}
impl Actor for MiniPeer {
    type Msg = M;
    type State = S;
    type Timer = ();
    type Random = ();
    fn on_start(&self, id: Id, o: &mut Out<Self>) -> S {
        let (s, cmds) = self.0.eval_start(id);
        for c in crate::s2::script::flat(cmds) {
            if let RCmd::Send(d, m) = c {
                o.send(d, m)
            }
        }
        s
    }
    fn on_msg(&self, id: Id, state: &mut Cow<S>, src: Id, msg: M, o: &mut Out<Self>) {
        let e = self.0.eval_msg(id, state, src, &msg);
        if let Some(n) = e.new_state {
            *state = Cow::Owned(n);
        }
        for c in crate::s2::script::flat(e.cmds) {
            if let RCmd::Send(d, m) = c {
                o.send(d, m)
            }
        }
    }
}

pub fn gen_adapter(seed: u64) -> AdapterScenario {
    let mut rng = Rng::new(seed);
    let adapter = *rng.pick(&["choice1", "choice2", "choice3", "choice3", "register", "woregister", "vec"]);
    let mut g = SysGen::default();
    g.states = rng.range(1, 3) as u8;
    g.tags = rng.range(2, 4) as u8;
    g.timers = rng.range(1, 2) as u8;
    g.randoms = rng.range(1, 3) as u8;
    g.row_pct = *rng.pick(&[60u64, 90]);
    g.log = rng.chance(1, 3);
    if adapter == "vec" {
        g.use_timers = false;
        g.use_random = false;
    } else {
        g.use_timers = true;
        g.use_random = true;
    }
    let mut sys = gen_system(&mut rng, &g);
    sys.init_net.clear();
    sys.hist = HCfg { rec_in: 0, rec_out: 0, cap: 0 };
    let clamped = adapter == "woregister" && rng.chance(2, 3);
    if clamped {
        super::clamp_ids(&mut sys);
    }
    let n = sys.tables.len();
    let positions = (0..n).map(|_| rng.below(3) as u8).collect();
    let script = (0..rng.below(5)).map(|_| (rng.below(n as u64 + 1) as u8, rng.below(g.tags as u64) as u8)).collect();
    AdapterScenario { adapter: adapter.to_string(), sys, positions, steps: rng.range(5, 60) as usize, walk_seed: rng.next_u64(), script, clamped }
}

pub fn run_adapter(sc: &AdapterScenario) -> LockOutcome {
    let tables: Vec<Arc<Table>> = sc.sys.tables.iter().map(|t| Arc::new(t.clone())).collect();
    let bare: Vec<ScriptActor> = tables.iter().map(|t| ScriptActor(t.clone())).collect();
    match sc.adapter.as_str() {
        "choice1" => {
            let wrapped: Vec<Choice<ScriptActor, Never>> = bare.iter().cloned().map(Choice::new).collect();
            lockstep("Choice<A,Never>", &base(&sc.sys, bare), &base(&sc.sys, wrapped), ident, sc.steps, sc.walk_seed)
        }
        "choice2" => {
            let wrapped: Vec<Choice<ScriptActor, ScriptActor>> =
                bare.iter().cloned().zip(&sc.positions).map(|(a, p)| if p % 2 == 0 { Choice::L(a) } else { Choice::R(a) }).collect();
            lockstep("Choice<A1,A2>", &base(&sc.sys, bare), &base(&sc.sys, wrapped), ident, sc.steps, sc.walk_seed)
        }
        "choice3" => {
            type W = Choice<ScriptActor, Choice<ScriptActor, Choice<ScriptActor, Never>>>;
            let wrapped: Vec<W> = bare
                .iter()
                .cloned()
                .zip(&sc.positions)
                .map(|(a, p)| match p % 3 {
                    0 => Choice::L(a),
                    1 => Choice::R(Choice::L(a)),
                    _ => Choice::R(Choice::R(Choice::new(a))),
                })
                .collect();
            lockstep("Choice-nested", &base(&sc.sys, bare), &base(&sc.sys, wrapped), ident, sc.steps, sc.walk_seed)
        }
        "register" => {
            let bare: Vec<RegScript> = tables.iter().map(|t| RegScript(t.clone())).collect();
            let wrapped: Vec<RegisterActor<RegScript>> = bare.iter().cloned().map(RegisterActor::Server).collect();
            lockstep("RegisterActor::Server", &base(&sc.sys, bare), &base(&sc.sys, wrapped), strip_server, sc.steps, sc.walk_seed)
        }
        "woregister" => {
            let bare: Vec<WORegScript> = tables.iter().map(|t| WORegScript(t.clone())).collect();
            let wrapped: Vec<WORegisterActor<WORegScript>> = bare.iter().cloned().map(WORegisterActor::Server).collect();
            use stateright::Representative;
            lockstep_rep("WORegisterActor::Server", &base(&sc.sys, bare), &base(&sc.sys, wrapped), strip_server, sc.steps, sc.walk_seed, if sc.clamped { Some((|s| s.representative(), |s| s.representative())) } else { None })
        }
        _ => {
            // actor 0 is the scripted client, the others are peers
            let script: Vec<(Id, M)> = sc.script.iter().map(|(d, t)| (Id::from(*d as usize), M { tag: *t, who: None })).collect();
            type A = Choice<RefClient, Choice<MiniPeer, Never>>;
            type B = Choice<Vec<(Id, M)>, Choice<MiniPeer, Never>>;
            let mut a: Vec<A> = vec![Choice::L(RefClient(script.clone()))];
            let mut b: Vec<B> = vec![Choice::L(script)];
            for t in tables.iter().skip(1) {
                a.push(Choice::R(Choice::new(MiniPeer(t.clone()))));
                b.push(Choice::R(Choice::new(MiniPeer(t.clone()))));
            }
            let mut sys = sc.sys.clone();
            sys.max_crashes = sys.max_crashes.min(1);
            lockstep("Vec-client", &base(&sys, a), &base(&sys, b), ident, sc.steps, sc.walk_seed)
        }
    }
}
