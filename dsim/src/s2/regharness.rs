//! C18 (second half) — register harness systems: RegisterActor / WORegisterActor clients with the
//! record_invocations / record_returns hooks around servers that answer each request at most once.

use crate::common::{Counters, Violation};
use crate::rng::Rng;
use serde::{Deserialize, Serialize};
use stateright::actor::{Actor, ActorModel, ActorModelAction, Id, LossyNetwork, Network, Out};
use stateright::semantics::{ConsistencyTester, LinearizabilityTester};
use stateright::Model;
use std::borrow::Cow;
use std::collections::{BTreeMap, BTreeSet};

#[derive(Clone, Debug, Serialize, Deserialize)]
pub struct RegScenario {
    /// "register" | "woregister"
    pub proto: String,
    pub servers: usize,
    /// per server: "direct" | "forward" | "delay" | "silent"
    pub modes: Vec<String>,
    /// per client: put_count
    pub clients: Vec<usize>,
    pub net: String,
    pub lossy: bool,
    pub max_crashes: usize,
    pub steps: usize,
    pub walk_seed: u64,
    #[serde(default)]
    pub picks: Option<Vec<String>>,
}

pub fn gen_reg(seed: u64) -> RegScenario {
    let mut rng = Rng::new(seed);
    let servers = rng.range(1, 2) as usize;
    let modes = (0..servers).map(|_| rng.pick(&["direct", "direct", "forward", "delay", "silent"]).to_string()).collect();
    let clients = (0..rng.range(1, 3)).map(|_| rng.below(4) as usize).collect();
    RegScenario {
        proto: rng.pick(&["register", "woregister"]).to_string(),
        servers,
        modes,
        clients,
        net: rng.pick(&["ordered", "dup", "nondup"]).to_string(),
        lossy: rng.chance(1, 3),
        max_crashes: rng.below(2) as usize,
        steps: rng.range(5, 60) as usize,
        walk_seed: rng.next_u64(),
        picks: None,
    }
}

pub struct RegOutcome {
    pub violations: Vec<Violation>,
    pub counters: Counters,
    pub signature: u64,
    pub steps: u64,
    pub taken: Vec<String>,
}

macro_rules! harness {
    ($modname:ident, $Msg:ident, $ActorT:ident, $msgpath:path, $actorpath:path, $Spec:ident, $Op:ident, $Ret:ident, $specmod:path, $init:expr, $readok:expr, $has_fail:expr) => {
        pub mod $modname {
            use super::*;
            use $actorpath::{$ActorT, $Msg};
            use $specmod::{$Op, $Ret, $Spec};

            /// Server-internal message: a request relayed on behalf of a client, or a deferred reply.
            #[derive(Clone, Debug, PartialEq, Eq, Hash, PartialOrd, Ord, Serialize, Deserialize)]
            pub enum Int {
                FwdPut(Id, u64, char),
                FwdGet(Id, u64),
                LaterPutOk(Id, u64),
                LaterGetOk(Id, u64, char),
            }
            pub type M = $Msg<u64, char, Int>;

            #[derive(Clone, Debug)]
            pub struct Server {
                pub mode: String,
                pub servers: usize,
            }
            #[derive(Clone, Debug, PartialEq, Eq, Hash)]
            pub struct SState {
                pub value: Option<char>,
            }
            impl Server {
                fn put(&self, st: &mut Cow<SState>, client: Id, id: u64, v: char, o: &mut Out<Self>) {
                    if $has_fail {
                        match st.value {
                            Some(cur) if cur != v => {
                                o.send(client, put_fail(id));
                                return;
                            }
                            _ => {}
                        }
                    }
                    st.to_mut().value = Some(v);
                    o.send(client, $Msg::PutOk(id));
                }
                fn get(&self, st: &Cow<SState>, client: Id, id: u64, o: &mut Out<Self>) {
                    match st.value {
                        Some(v) => o.send(client, $Msg::GetOk(id, v)),
                        None => {
                            if !$has_fail {
                                o.send(client, $Msg::GetOk(id, '?'))
                            }
                            // a write-once register that was never written cannot answer GetOk
                        }
                    }
                }
            }
            #[allow(unreachable_code)]
            fn put_fail(id: u64) -> M {
                put_fail_impl(id)
            }
            impl Actor for Server {
                type Msg = M;
                type State = SState;
                type Timer = ();
                type Random = ();
                fn on_start(&self, _id: Id, _o: &mut Out<Self>) -> SState {
                    SState { value: if $has_fail { None } else { Some('?') } }
                }
                fn on_msg(&self, id: Id, st: &mut Cow<SState>, src: Id, msg: M, o: &mut Out<Self>) {
                    let next = Id::from((usize::from(id) + 1) % self.servers);
                    match msg {
                        $Msg::Put(rid, v) => match self.mode.as_str() {
                            "forward" if self.servers > 1 => o.send(next, $Msg::Internal(Int::FwdPut(src, rid, v))),
                            "delay" => {
                                // apply now, answer later
                                if $has_fail && matches!(st.value, Some(cur) if cur != v) {
                                    o.send(src, put_fail(rid));
                                } else {
                                    st.to_mut().value = Some(v);
                                    o.send(id, $Msg::Internal(Int::LaterPutOk(src, rid)));
                                }
                            }
                            "silent" if rid % 3 == 0 => {}
                            _ => self.put(st, src, rid, v, o),
                        },
                        $Msg::Get(rid) => match self.mode.as_str() {
                            "forward" if self.servers > 1 => o.send(next, $Msg::Internal(Int::FwdGet(src, rid))),
                            "delay" => {
                                if let Some(v) = st.value {
                                    o.send(id, $Msg::Internal(Int::LaterGetOk(src, rid, v)));
                                }
                            }
                            "silent" if rid % 3 == 0 => {}
                            _ => self.get(st, src, rid, o),
                        },
                        $Msg::Internal(Int::FwdPut(c, rid, v)) => self.put(st, c, rid, v, o),
                        $Msg::Internal(Int::FwdGet(c, rid)) => self.get(st, c, rid, o),
                        $Msg::Internal(Int::LaterPutOk(c, rid)) => o.send(c, $Msg::PutOk(rid)),
                        $Msg::Internal(Int::LaterGetOk(c, rid, v)) => o.send(c, $Msg::GetOk(rid, v)),
                        _ => {}
                    }
                }
            }

            type A = $ActorT<Server>;
            type H = LinearizabilityTester<Id, $Spec<char>>;
            type Act = ActorModelAction<M, (), ()>;

            fn net_all(n: &Network<M>) -> Vec<(Id, Id, M)> {
                n.iter_all().map(|e| (e.src, e.dst, e.msg.clone())).collect()
            }

            pub fn run(sc: &RegScenario) -> RegOutcome {
                let ns = sc.servers;
                let net: Network<M> = match sc.net.as_str() {
                    "ordered" => Network::new_ordered([]),
                    "dup" => Network::new_unordered_duplicating([]),
                    _ => Network::new_unordered_nonduplicating([]),
                };
                let mut actors: Vec<A> = (0..ns).map(|i| $ActorT::Server(Server { mode: sc.modes[i].clone(), servers: ns })).collect();
                for pc in &sc.clients {
                    actors.push($ActorT::Client { put_count: *pc, server_count: ns });
                }
                let model: ActorModel<A, (), H> = ActorModel::new((), LinearizabilityTester::new($init))
                    .actors(actors)
                    .init_network(net)
                    .lossy_network(if sc.lossy { LossyNetwork::Yes } else { LossyNetwork::No })
                    .max_crashes(sc.max_crashes)
                    .record_msg_out($Msg::record_invocations)
                    .record_msg_in($Msg::record_returns);
                let mut rng = Rng::new(sc.walk_seed);
                let mut v: Vec<Violation> = Vec::new();
                let mut c = Counters::default();
                let mut sig = 0xcbf2_9ce4_8422_2325u64;
                let mut taken = Vec::new();
                let mut shadow: H = LinearizabilityTester::new($init);
                let mut shadow_ok = true;
                let mut outstanding: BTreeMap<Id, BTreeSet<u64>> = BTreeMap::new();
                let mut ids_used: BTreeSet<(Id, u64)> = BTreeSet::new();
                let is_client = |i: Id| usize::from(i) >= ns;
                // the client-visible requests sent in a step: new Put/Get envelopes from clients
                let mut note_sends = |before: &[(Id, Id, M)], after: &[(Id, Id, M)], shadow: &mut H, shadow_ok: &mut bool, v: &mut Vec<Violation>, outstanding: &mut BTreeMap<Id, BTreeSet<u64>>, ids_used: &mut BTreeSet<(Id, u64)>| {
                    let mut pool: Vec<(Id, Id, M)> = before.to_vec();
                    for e in after {
                        if let Some(p) = pool.iter().position(|x| x == e) {
                            pool.remove(p);
                            continue;
                        }
                        if !is_client(e.0) {
                            continue;
                        }
                        let (rid, op) = match &e.2 {
                            $Msg::Put(rid, val) => (*rid, $Op::Write(*val)),
                            $Msg::Get(rid) => (*rid, $Op::Read),
                            _ => continue,
                        };
                        if !ids_used.insert((e.0, rid)) {
                            v.push(Violation::new("C18", "id-reuse", format!("client {:?} reuses request id {}", e.0, rid)));
                        }
                        // outstanding = sent and its own reply (same request id) not yet accepted
                        let set = outstanding.entry(e.0).or_default();
                        set.insert(rid);
                        if set.len() > 1 {
                            v.push(Violation::new("C18", "two-outstanding", format!("client {:?} sends {:?} while its requests {:?} are all unanswered", e.0, e.2, set)));
                        }
                        if shadow.on_invoke(e.0, op).is_err() {
                            *shadow_ok = false;
                        }
                    }
                };
                let mut st = model.init_states().into_iter().next().unwrap();
                note_sends(&[], &net_all(&st.network), &mut shadow, &mut shadow_ok, &mut v, &mut outstanding, &mut ids_used);
                let mut pick_iter = sc.picks.clone().map(|p| p.into_iter());
                for _ in 0..sc.steps {
                    // the recorded history mirrors exactly the client-visible calls and replies
                    if st.history != shadow && v.is_empty() {
                        v.push(Violation::new("C18", "history-unfaithful", format!("recorded history {:?} differs from the client-visible calls and replies {:?}", st.history, shadow)));
                    }
                    if !shadow_ok && v.is_empty() {
                        v.push(Violation::new("C18", "history-unfaithful", "the client-visible calls and replies form an ill-formed history".to_string()));
                    }
                    if !v.is_empty() {
                        break;
                    }
                    // a single server applying requests atomically is a linearizable register when
                    // the network does not redeliver requests
                    let consistent = st.history.is_consistent();
                    if ns == 1 && sc.net != "dup" {
                        c.inc("single_copy_histories_checked");
                        if !consistent && v.is_empty() {
                            v.push(Violation::new("C08", "rejects-consistent:single-copy", format!("the history of a single-copy register system is rejected: {:?}", st.history)));
                        }
                    } else if !consistent {
                        c.inc("probe_inconsistent_history_reached");
                    }
                    let mut acts: Vec<Act> = Vec::new();
                    model.actions(&st, &mut acts);
                    let mut eff: BTreeMap<String, (Act, stateright::actor::ActorModelState<A, H>)> = BTreeMap::new();
                    for a in acts {
                        let k = format!("{:?}", a);
                        if eff.contains_key(&k) {
                            continue;
                        }
                        if let Some(nx) = model.next_state(&st, a.clone()) {
                            eff.insert(k, (a, nx));
                        }
                    }
                    if eff.is_empty() {
                        break;
                    }
                    let keys: Vec<String> = eff.keys().cloned().collect();
                    let chosen = if let Some(it) = pick_iter.as_mut() {
                        let mut f = None;
                        for p in it.by_ref() {
                            if keys.contains(&p) {
                                f = Some(p);
                                break;
                            }
                        }
                        match f {
                            Some(k) => k,
                            None => break,
                        }
                    } else {
                        rng.pick(&keys).clone()
                    };
                    let (act, nx) = eff.remove(&chosen).unwrap();
                    // replies accepted by a client
                    if let ActorModelAction::Deliver { dst, msg, .. } = &act {
                        if is_client(*dst) {
                            let ret = match msg {
                                $Msg::PutOk(_) => Some($Ret::WriteOk),
                                $Msg::GetOk(_, val) => Some($readok(*val)),
                                other => fail_ret(other),
                            };
                            let reply_id = match msg {
                                $Msg::PutOk(i) | $Msg::GetOk(i, _) => Some(*i),
                                other => fail_id(other),
                            };
                            if let Some(ret) = ret {
                                let changed = format!("{:?}", st.actor_states[usize::from(*dst)]) != format!("{:?}", nx.actor_states[usize::from(*dst)]);
                                if changed {
                                    c.inc("replies_accepted");
                                    if let Some(i) = reply_id {
                                        outstanding.entry(*dst).or_default().remove(&i);
                                    }
                                    if shadow.on_return(*dst, ret).is_err() {
                                        shadow_ok = false;
                                    }
                                } else {
                                    c.inc("probe_reply_ignored_by_client");
                                }
                            }
                        }
                    }
                    match &act {
                        ActorModelAction::Drop(_) => c.inc("fault_message_dropped"),
                        ActorModelAction::Crash(i) => {
                            c.inc("fault_actor_crashed");
                            if is_client(*i) && outstanding.get(i).map(|s| !s.is_empty()).unwrap_or(false) {
                                c.inc("probe_client_crashed_with_operation_in_flight");
                            }
                        }
                        _ => {}
                    }
                    note_sends(&net_all(&st.network), &net_all(&nx.network), &mut shadow, &mut shadow_ok, &mut v, &mut outstanding, &mut ids_used);
                    // a client that now awaits the reply to a new request id has made a call: it must
                    // have been sent (and so recorded), whatever has become of the server meanwhile
                    for i in ns..nx.actor_states.len() {
                        let aw = |s: String| -> Option<u64> { s.split("awaiting: Some(").nth(1).and_then(|r| r.split(')').next()).and_then(|x| x.trim().parse().ok()) };
                        let (a0, a1) = (aw(format!("{:?}", st.actor_states[i])), aw(format!("{:?}", nx.actor_states[i])));
                        if let Some(id) = a1 {
                            if a1 != a0 && !ids_used.contains(&(Id::from(i), id)) && v.is_empty() {
                                v.push(Violation::new("C18", "history-unfaithful", format!("after {}: client {} awaits the reply to request {} but that call never entered the network, so the history cannot mirror it", chosen, i, id)));
                            }
                        }
                    }
                    sig = (sig ^ crate::rng::hash_str(&chosen)).wrapping_mul(0x0000_0100_0000_01b3);
                    taken.push(chosen);
                    st = nx;
                }
                c.add("walk_steps", taken.len() as u64);
                c.add("operations_invoked", ids_used.len() as u64);
                let steps = taken.len() as u64;
                RegOutcome { violations: v, counters: c, signature: sig, steps, taken }
            }
        }
    };
}

mod reg_fail {
    use stateright::actor::register::RegisterMsg;
    use stateright::semantics::register::RegisterRet;
    pub fn put_fail_impl<I>(_id: u64) -> RegisterMsg<u64, char, I> {
        unreachable!("plain registers never fail a put")
    }
    pub fn fail_ret<I>(_m: &RegisterMsg<u64, char, I>) -> Option<RegisterRet<char>> {
        None
    }
    pub fn fail_id<I>(_m: &RegisterMsg<u64, char, I>) -> Option<u64> {
        None
    }
}
mod wo_fail {
    use stateright::actor::write_once_register::WORegisterMsg;
    use stateright::semantics::write_once_register::WORegisterRet;
    pub fn put_fail_impl<I>(id: u64) -> WORegisterMsg<u64, char, I> {
        WORegisterMsg::PutFail(id)
    }
    pub fn fail_ret<I>(m: &WORegisterMsg<u64, char, I>) -> Option<WORegisterRet<char>> {
        match m {
            WORegisterMsg::PutFail(_) => Some(WORegisterRet::WriteFail),
            _ => None,
        }
    }
    pub fn fail_id<I>(m: &WORegisterMsg<u64, char, I>) -> Option<u64> {
        match m {
            WORegisterMsg::PutFail(i) => Some(*i),
            _ => None,
        }
    }
}

pub mod plain {
    pub use super::reg_fail::{fail_id, fail_ret, put_fail_impl};
}
pub mod wo {
    pub use super::wo_fail::{fail_id, fail_ret, put_fail_impl};
}

mod inst_reg {
    use super::plain::*;
    use super::*;
    harness!(h, RegisterMsg, RegisterActor, stateright::actor::register, stateright::actor::register, Register, RegisterOp, RegisterRet, stateright::semantics::register, Register('?'), |v: char| RegisterRet::ReadOk(v), false);
    pub use h::run;
}
mod inst_wo {
    use super::wo::*;
    use super::*;
    harness!(h, WORegisterMsg, WORegisterActor, stateright::actor::write_once_register, stateright::actor::write_once_register, WORegister, WORegisterOp, WORegisterRet, stateright::semantics::write_once_register, WORegister(None), |v: char| WORegisterRet::ReadOk(Some(v)), true);
    pub use h::run;
}

pub fn run_reg(sc: &RegScenario) -> RegOutcome {
    if sc.proto == "woregister" {
        inst_wo::run(sc)
    } else {
        inst_reg::run(sc)
    }
}
