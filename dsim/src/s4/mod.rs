//! S4 — concurrent histories: simulated clients and (possibly faulty) shared objects produce
//! invoke/return event logs that are fed, event by event, to the real consistency testers; a
//! brute-force search over the definition is evaluated on the same log.

use crate::common::{Counters, RunReport, Violation};
use crate::rng::Rng;
use serde::{Deserialize, Serialize};
use serde_json::Value;
use stateright::semantics::register::{Register, RegisterOp, RegisterRet};
use stateright::semantics::vec::{VecOp, VecRet};
use stateright::semantics::write_once_register::{WORegister, WORegisterOp, WORegisterRet};
use stateright::semantics::{ConsistencyTester, LinearizabilityTester, SequentialConsistencyTester, SequentialSpec};
use std::fmt::Debug;

/// Serializable operation / return codes; each spec maps them to its own types.
pub type Code = (u8, i32);

#[derive(Clone, Debug, Serialize, Deserialize, PartialEq)]
pub struct Ev {
    pub thread: u8,
    pub invoke: bool,
    pub code: Code,
}

#[derive(Clone, Debug, Serialize, Deserialize)]
pub struct History {
    pub spec: String,
    pub init: i32,
    pub events: Vec<Ev>,
    /// How the generating object misbehaved (informational).
    pub fault: String,
}

pub trait Kind {
    type Obj: SequentialSpec<Op = Self::Op, Ret = Self::Ret> + Clone + Debug + PartialEq;
    type Op: Clone + Debug + PartialEq;
    type Ret: Clone + Debug + PartialEq;
    fn init(v: i32) -> Self::Obj;
    fn op(c: Code) -> Self::Op;
    fn ret(c: Code) -> Self::Ret;
    fn ret_code(r: &Self::Ret) -> Code;
    fn gen_op(rng: &mut Rng, fresh: &mut i32) -> Code;
    fn wrong_ret(rng: &mut Rng, c: Code) -> Code;
}

pub struct KReg;
impl Kind for KReg {
    type Obj = Register<i32>;
    type Op = RegisterOp<i32>;
    type Ret = RegisterRet<i32>;
    fn init(v: i32) -> Self::Obj {
        Register(v)
    }
    fn op(c: Code) -> Self::Op {
        if c.0 == 0 {
            RegisterOp::Write(c.1)
        } else {
            RegisterOp::Read
        }
    }
    fn ret(c: Code) -> Self::Ret {
        if c.0 == 0 {
            RegisterRet::WriteOk
        } else {
            RegisterRet::ReadOk(c.1)
        }
    }
    fn ret_code(r: &Self::Ret) -> Code {
        match r {
            RegisterRet::WriteOk => (0, 0),
            RegisterRet::ReadOk(v) => (1, *v),
        }
    }
    fn gen_op(rng: &mut Rng, fresh: &mut i32) -> Code {
        if rng.chance(1, 2) {
            *fresh += 1;
            (0, *fresh)
        } else {
            (1, 0)
        }
    }
    fn wrong_ret(rng: &mut Rng, c: Code) -> Code {
        match rng.below(3) {
            0 => (1 - c.0, rng.below(4) as i32),
            _ => (c.0, c.1 + 1 + rng.below(2) as i32),
        }
    }
}

pub struct KWo;
impl Kind for KWo {
    type Obj = WORegister<i32>;
    type Op = WORegisterOp<i32>;
    type Ret = WORegisterRet<i32>;
    fn init(v: i32) -> Self::Obj {
        WORegister(if v < 0 { None } else { Some(v) })
    }
    fn op(c: Code) -> Self::Op {
        if c.0 == 0 {
            WORegisterOp::Write(c.1)
        } else {
            WORegisterOp::Read
        }
    }
    fn ret(c: Code) -> Self::Ret {
        match c.0 {
            0 => WORegisterRet::WriteOk,
            2 => WORegisterRet::WriteFail,
            _ => WORegisterRet::ReadOk(if c.1 < 0 { None } else { Some(c.1) }),
        }
    }
    fn ret_code(r: &Self::Ret) -> Code {
        match r {
            WORegisterRet::WriteOk => (0, 0),
            WORegisterRet::WriteFail => (2, 0),
            WORegisterRet::ReadOk(v) => (1, v.unwrap_or(-1)),
        }
    }
    fn gen_op(rng: &mut Rng, _fresh: &mut i32) -> Code {
        if rng.chance(1, 2) {
            (0, rng.below(3) as i32) // few values: equal re-writes succeed
        } else {
            (1, 0)
        }
    }
    fn wrong_ret(rng: &mut Rng, c: Code) -> Code {
        match c.0 {
            0 => (2, 0),
            2 => (0, 0),
            _ => (1, if c.1 < 0 { rng.below(3) as i32 } else { c.1 - 1 - rng.below(2) as i32 }),
        }
    }
}

pub struct KVec;
impl Kind for KVec {
    type Obj = Vec<i32>;
    type Op = VecOp<i32>;
    type Ret = VecRet<i32>;
    fn init(v: i32) -> Self::Obj {
        (0..v.clamp(0, 2)).collect()
    }
    fn op(c: Code) -> Self::Op {
        match c.0 {
            0 => VecOp::Push(c.1),
            1 => VecOp::Pop,
            _ => VecOp::Len,
        }
    }
    fn ret(c: Code) -> Self::Ret {
        match c.0 {
            0 => VecRet::PushOk,
            1 => VecRet::PopOk(if c.1 < 0 { None } else { Some(c.1) }),
            _ => VecRet::LenOk(c.1.max(0) as usize),
        }
    }
    fn ret_code(r: &Self::Ret) -> Code {
        match r {
            VecRet::PushOk => (0, 0),
            VecRet::PopOk(v) => (1, v.unwrap_or(-1)),
            VecRet::LenOk(n) => (2, *n as i32),
        }
    }
    fn gen_op(rng: &mut Rng, fresh: &mut i32) -> Code {
        match rng.below(4) {
            0 | 1 => {
                *fresh += 1;
                (0, *fresh)
            }
            2 => (1, 0),
            _ => (2, 0),
        }
    }
    fn wrong_ret(rng: &mut Rng, c: Code) -> Code {
        match c.0 {
            0 => (2, 0),
            1 => (1, if c.1 < 0 { 1 } else { c.1 - 1 }),
            _ => (2, c.1 + 1 + rng.below(2) as i32),
        }
    }
}

/// A harness-defined spec that relies on the trait's default `is_valid_step`.
#[derive(Clone, Debug, PartialEq)]
pub struct Tas(pub bool);
#[derive(Clone, Debug, PartialEq)]
pub enum TasOp {
    TestAndSet,
    Reset,
    Get,
}
impl SequentialSpec for Tas {
    type Op = TasOp;
    type Ret = bool;
    fn invoke(&mut self, op: &TasOp) -> bool {
        match op {
            TasOp::TestAndSet => std::mem::replace(&mut self.0, true),
            TasOp::Reset => std::mem::replace(&mut self.0, false),
            TasOp::Get => self.0,
        }
    }
}
pub struct KTas;
impl Kind for KTas {
    type Obj = Tas;
    type Op = TasOp;
    type Ret = bool;
    fn init(v: i32) -> Tas {
        Tas(v > 0)
    }
    fn op(c: Code) -> TasOp {
        match c.0 {
            0 => TasOp::TestAndSet,
            1 => TasOp::Reset,
            _ => TasOp::Get,
        }
    }
    fn ret(c: Code) -> bool {
        c.1 != 0
    }
    fn ret_code(r: &bool) -> Code {
        (0, *r as i32)
    }
    fn gen_op(rng: &mut Rng, _: &mut i32) -> Code {
        (rng.below(3) as u8, 0)
    }
    fn wrong_ret(_: &mut Rng, c: Code) -> Code {
        (0, 1 - c.1)
    }
}

// ---------------------------------------------------------------------------------------------
// generation: simulated clients against a simulated object

pub fn gen_history<K: Kind>(spec: &str, rng: &mut Rng) -> History {
    let threads = rng.range(1, 4) as usize;
    let max_ops = rng.range(1, 8) as usize;
    let fault = *rng.pick(&["none", "none", "none", "stale-read", "lost-write", "wrong-return", "duplicate-reply", "double-invoke", "reply-without-request"]);
    let init = rng.below(3) as i32 - if spec == "woregister" { 1 } else { 0 };
    let mut obj = K::init(init);
    let mut old_snapshots = vec![obj.clone()];
    let mut fresh = 10;
    #[derive(Clone)]
    enum T {
        Idle,
        Invoked(Code),
        Applied(Code),
    }
    let mut st = vec![T::Idle; threads];
    let mut events = Vec::new();
    let mut ops = 0;
    let mut fault_budget = 1;
    let steps = rng.range(2, 40);
    // client crashes: a crashed client's last invocation stays in flight for ever (it may or may
    // not take effect); the surviving clients keep observing the object
    let crashy = threads >= 2 && rng.chance(1, 3);
    let crash_after: Vec<Option<usize>> = (0..threads).map(|t| if crashy && t + 1 < threads && rng.chance(2, 3) { Some(rng.range(1, 2) as usize) } else { None }).collect();
    let mut invoked = vec![0usize; threads];
    for _ in 0..steps {
        let t = rng.usize_below(threads);
        if let (T::Applied(_), Some(k)) = (&st[t], crash_after[t]) {
            if invoked[t] >= k {
                continue; // crashed while waiting for the reply
            }
        }
        match st[t].clone() {
            T::Idle => {
                if ops < max_ops {
                    let c = K::gen_op(rng, &mut fresh);
                    if crash_after[t].map(|k| invoked[t] >= k).unwrap_or(false) {
                        continue; // a crashed client issues nothing more
                    }
                    events.push(Ev { thread: t as u8, invoke: true, code: c });
                    st[t] = T::Invoked(c);
                    invoked[t] += 1;
                    ops += 1;
                } else if fault == "reply-without-request" && fault_budget > 0 && rng.chance(1, 4) {
                    fault_budget -= 1;
                    events.push(Ev { thread: t as u8, invoke: false, code: (0, 0) });
                }
            }
            T::Invoked(c) => {
                if fault == "double-invoke" && fault_budget > 0 && rng.chance(1, 4) {
                    fault_budget -= 1;
                    let c2 = K::gen_op(rng, &mut fresh);
                    events.push(Ev { thread: t as u8, invoke: true, code: c2 });
                    continue;
                }
                // the linearization point
                let op = K::op(c);
                let ret = if fault == "stale-read" && fault_budget > 0 && rng.chance(1, 3) {
                    fault_budget -= 1;
                    let mut old = old_snapshots[rng.usize_below(old_snapshots.len())].clone();
                    old.invoke(&op)
                } else if fault == "lost-write" && fault_budget > 0 && rng.chance(1, 3) {
                    fault_budget -= 1;
                    let mut copy = obj.clone();
                    copy.invoke(&op) // effect discarded
                } else {
                    obj.invoke(&op)
                };
                old_snapshots.push(obj.clone());
                st[t] = T::Applied(K::ret_code(&ret));
            }
            T::Applied(r) => {
                let mut r2 = r;
                if fault == "wrong-return" && fault_budget > 0 && rng.chance(1, 3) {
                    fault_budget -= 1;
                    r2 = K::wrong_ret(rng, r);
                }
                events.push(Ev { thread: t as u8, invoke: false, code: r2 });
                st[t] = T::Idle;
                if fault == "duplicate-reply" && fault_budget > 0 && rng.chance(1, 3) {
                    fault_budget -= 1;
                    events.push(Ev { thread: t as u8, invoke: false, code: r2 });
                }
            }
        }
    }
    History { spec: spec.to_string(), init, events, fault: fault.to_string() }
}

// ---------------------------------------------------------------------------------------------
// brute force over the definition

#[derive(Clone, Debug)]
struct OpRec<K: Kind> {
    thread: u8,
    op: K::Op,
    inv: usize,
    ret: Option<(K::Ret, usize)>,
}

fn parse<K: Kind>(events: &[Ev]) -> Result<Vec<OpRec<K>>, usize> {
    let mut ops: Vec<OpRec<K>> = Vec::new();
    let mut open: std::collections::BTreeMap<u8, usize> = Default::default();
    for (i, e) in events.iter().enumerate() {
        if e.invoke {
            if open.contains_key(&e.thread) {
                return Err(i);
            }
            open.insert(e.thread, ops.len());
            ops.push(OpRec { thread: e.thread, op: K::op(e.code), inv: i, ret: None });
        } else {
            match open.remove(&e.thread) {
                None => return Err(i),
                Some(k) => ops[k].ret = Some((K::ret(e.code), i)),
            }
        }
    }
    Ok(ops)
}

/// Is there a total order of all completed operations plus some in-flight ones that respects
/// per-thread order, (optionally) real-time precedence, and the sequential specification?
fn exists_order<K: Kind>(ops: &[OpRec<K>], init: &K::Obj, real_time: bool) -> bool {
    fn go<K: Kind>(ops: &[OpRec<K>], placed: &mut Vec<bool>, obj: &K::Obj, real_time: bool) -> bool {
        if ops.iter().enumerate().all(|(i, o)| placed[i] || o.ret.is_none()) {
            return true;
        }
        for i in 0..ops.len() {
            if placed[i] {
                continue;
            }
            let x = &ops[i];
            // everything that must precede x is already placed
            let ok = ops.iter().enumerate().all(|(j, a)| {
                if j == i || placed[j] {
                    return true;
                }
                let same_thread_before = a.thread == x.thread && a.inv < x.inv;
                let rt_before = real_time && a.ret.as_ref().map(|(_, r)| *r < x.inv).unwrap_or(false);
                !(same_thread_before || rt_before)
            });
            if !ok {
                continue;
            }
            let mut o2 = obj.clone();
            let got = o2.invoke(&x.op);
            if let Some((want, _)) = &x.ret {
                if got != *want {
                    continue;
                }
            }
            placed[i] = true;
            if go::<K>(ops, placed, &o2, real_time) {
                placed[i] = false;
                return true;
            }
            placed[i] = false;
        }
        false
    }
    let mut placed = vec![false; ops.len()];
    go::<K>(ops, &mut placed, init, real_time)
}

/// Validates a serialization returned by a tester against the definition.
fn valid_serialization<K: Kind>(ops: &[OpRec<K>], init: &K::Obj, ser: &[(K::Op, K::Ret)], real_time: bool) -> Result<(), String> {
    // legal for the spec
    let mut obj = init.clone();
    for (op, ret) in ser {
        let got = obj.invoke(op);
        if got != *ret {
            return Err(format!("{:?} returns {:?} at that point, serialization says {:?}", op, got, ret));
        }
    }
    // it must be an ordering of all completed ops plus some in-flight ones: match greedily by
    // search (operations may repeat)
    fn assign<K: Kind>(ops: &[OpRec<K>], ser: &[(K::Op, K::Ret)], pos: usize, used: &mut Vec<Option<usize>>, real_time: bool) -> bool {
        if pos == ser.len() {
            return ops.iter().enumerate().all(|(i, o)| used[i].is_some() || o.ret.is_none());
        }
        for i in 0..ops.len() {
            if used[i].is_some() || ops[i].op != ser[pos].0 {
                continue;
            }
            if let Some((r, _)) = &ops[i].ret {
                if *r != ser[pos].1 {
                    continue;
                }
            }
            // predecessors already used
            let x = &ops[i];
            let ok = ops.iter().enumerate().all(|(j, a)| {
                if j == i || used[j].is_some() {
                    return true;
                }
                let same_thread_before = a.thread == x.thread && a.inv < x.inv;
                let rt_before = real_time && a.ret.as_ref().map(|(_, r)| *r < x.inv).unwrap_or(false);
                !(same_thread_before || rt_before)
            });
            if !ok {
                continue;
            }
            used[i] = Some(pos);
            if assign::<K>(ops, ser, pos + 1, used, real_time) {
                return true;
            }
            used[i] = None;
        }
        false
    }
    let mut used = vec![None; ops.len()];
    if assign::<K>(ops, ser, 0, &mut used, real_time) {
        Ok(())
    } else {
        Err("it is not an ordering of the completed operations (plus in-flight ones) that respects thread order and precedence".into())
    }
}

pub struct Judged {
    pub violations: Vec<Violation>,
    pub counters: Counters,
}

pub fn judge<K: Kind>(h: &History) -> Judged {
    let mut v = Vec::new();
    let mut c = Counters::default();
    let init = K::init(h.init);
    let mut lin: LinearizabilityTester<u8, K::Obj> = LinearizabilityTester::new(init.clone());
    let mut sc: SequentialConsistencyTester<u8, K::Obj> = SequentialConsistencyTester::new(init.clone());
    let mut broken = false;
    let mut prev: Option<(LinearizabilityTester<u8, K::Obj>, SequentialConsistencyTester<u8, K::Obj>)> = None;
    c.inc(&format!("fault_object_{}", h.fault));
    for (i, e) in h.events.iter().enumerate() {
        let prefix = &h.events[..=i];
        let parsed = parse::<K>(prefix);
        // clone isolation: a clone taken before the event must not change
        let (lin_clone, sc_clone) = (lin.clone(), sc.clone());
        let (lin_before, sc_before) = (format!("{:?}", lin_clone), format!("{:?}", sc_clone));
        // plain values: every way of copying (clone, clone_from onto a tester in another state: fresh,
        // invalidated, or one event behind) yields an equal tester that answers alike
        {
            let mut targets_lin: Vec<LinearizabilityTester<u8, K::Obj>> = vec![LinearizabilityTester::new(init.clone()), LinearizabilityTester::new(init.clone())];
            let _ = targets_lin[1].on_return(7u8, K::ret(e.code));
            let mut targets_sc: Vec<SequentialConsistencyTester<u8, K::Obj>> = vec![SequentialConsistencyTester::new(init.clone()), SequentialConsistencyTester::new(init.clone())];
            let _ = targets_sc[1].on_return(7u8, K::ret(e.code));
            if let Some((pl, ps)) = &prev {
                targets_lin.push(pl.clone());
                targets_sc.push(ps.clone());
            }
            for mut t in targets_lin {
                t.clone_from(&lin);
                if format!("{:?}", t) != lin_before || t != lin || t.is_consistent() != lin.is_consistent() || t.serialized_history() != lin.serialized_history() {
                    v.push(Violation::new("C14", "clone-from:linearizability", format!("before event {}: clone_from produced a tester that differs from its source: {:?} vs {}", i, t, lin_before)));
                }
            }
            for mut t in targets_sc {
                t.clone_from(&sc);
                if format!("{:?}", t) != sc_before || t != sc || t.is_consistent() != sc.is_consistent() || t.serialized_history() != sc.serialized_history() {
                    v.push(Violation::new("C14", "clone-from", format!("before event {}: clone_from produced a tester that differs from its source: {:?} vs {}", i, t, sc_before)));
                }
            }
            if lin_clone != lin || sc_clone != sc || lin_clone.is_consistent() != lin.is_consistent() || sc_clone.is_consistent() != sc.is_consistent() {
                v.push(Violation::new("C14", "clone-differs", format!("before event {}: a clone differs from its source", i)));
            }
            c.inc("clone_from_checked");
            prev = Some((lin_clone.clone(), sc_clone.clone()));
        }
        let (rl, rs) = if e.invoke {
            (lin.on_invoke(e.thread, K::op(e.code)).map(|_| ()), sc.on_invoke(e.thread, K::op(e.code)).map(|_| ()))
        } else {
            (lin.on_return(e.thread, K::ret(e.code)).map(|_| ()), sc.on_return(e.thread, K::ret(e.code)).map(|_| ()))
        };
        if format!("{:?}", lin_clone) != lin_before {
            v.push(Violation::new("C14", "clone-aliasing", "recording into the linearizability tester altered a clone taken earlier"));
        }
        if format!("{:?}", sc_clone) != sc_before {
            v.push(Violation::new("C14", "clone-aliasing", "recording into the sequential-consistency tester altered a clone taken earlier"));
        }
        let ill_formed_now = parsed.is_err();
        if ill_formed_now && !broken {
            c.inc("fault_ill_formed_event");
        }
        let expect_err = broken || ill_formed_now;
        if rl.is_err() != expect_err {
            let class = if expect_err { if broken { "not-sticky" } else { "ill-formed-accepted" } } else { "well-formed-rejected" };
            v.push(Violation::new("C14", format!("{}:linearizability", class), format!("event {} ({:?}): linearizability tester returned {:?}", i, e, rl)));
            v.push(Violation::new("C08", class, format!("event {} ({:?}): linearizability tester returned {:?}, expected {}", i, e, rl, if expect_err { "Err" } else { "Ok" })));
        }
        if rs.is_err() != expect_err {
            let class = if expect_err { if broken { "not-sticky" } else { "ill-formed-accepted" } } else { "well-formed-rejected" };
            v.push(Violation::new("C14", class, format!("event {} ({:?}): sequential-consistency tester returned {:?}, expected {}", i, e, rs, if expect_err { "Err" } else { "Ok" })));
        }
        if expect_err {
            broken = true;
            if lin.is_consistent() || lin.serialized_history().is_some() {
                v.push(Violation::new("C08", "not-sticky", format!("after ill-formed event {} the linearizability tester still reports consistent", i)));
                // C14 states it for both testers
                v.push(Violation::new("C14", "not-sticky:linearizability", format!("after ill-formed event {} the linearizability tester still reports consistent", i)));
            }
            if sc.is_consistent() || sc.serialized_history().is_some() {
                v.push(Violation::new("C14", "not-sticky", format!("after ill-formed event {} the sequential-consistency tester still reports consistent", i)));
            }
            if !v.is_empty() {
                break;
            }
            continue;
        }
        let ops = parsed.unwrap();
        let want_lin = exists_order::<K>(&ops, &init, true);
        let want_sc = exists_order::<K>(&ops, &init, false);
        let got_lin = lin.is_consistent();
        let got_sc = sc.is_consistent();
        c.inc("prefixes_checked");
        if ops.iter().any(|o| o.ret.is_none()) {
            c.inc("prefixes_with_in_flight_ops");
        }
        if !want_lin {
            c.inc("prefixes_not_linearizable");
        }
        if want_sc && !want_lin {
            c.inc("prefixes_sc_but_not_linearizable");
        }
        if got_lin != want_lin {
            v.push(Violation::new("C08", if got_lin { "accepts-inconsistent" } else { "rejects-consistent" }, format!("after event {}: tester says {}, definition says {} ({} spec, history {:?})", i, got_lin, want_lin, h.spec, prefix)));
        }
        if got_sc != want_sc {
            v.push(Violation::new("C14", if got_sc { "accepts-inconsistent" } else { "rejects-consistent" }, format!("after event {}: tester says {}, definition says {} ({} spec, history {:?})", i, got_sc, want_sc, h.spec, prefix)));
        }
        if got_lin && !got_sc {
            v.push(Violation::new("C14", "lin-not-sc", format!("after event {}: accepted by the linearizability tester but rejected by the sequential-consistency tester", i)));
        }
        if let Some(ser) = lin.serialized_history() {
            if let Err(e) = valid_serialization::<K>(&ops, &init, &ser, true) {
                v.push(Violation::new("C08", "bad-serialization", format!("after event {}: serialization {:?}: {}", i, ser, e)));
            }
        }
        if let Some(ser) = sc.serialized_history() {
            if let Err(e) = valid_serialization::<K>(&ops, &init, &ser, false) {
                v.push(Violation::new("C14", "bad-serialization", format!("after event {}: serialization {:?}: {}", i, ser, e)));
            }
        }
        if !v.is_empty() {
            break;
        }
    }
    // the combined entry point on_invret(thread, op, ret): an invocation directly followed by its own
    // return is fed in one call to a second pair of testers; they must accept and reject alike and
    // end up equal to the ones fed event by event
    if v.is_empty() {
        let mut lin2: LinearizabilityTester<u8, K::Obj> = LinearizabilityTester::new(init.clone());
        let mut sc2: SequentialConsistencyTester<u8, K::Obj> = SequentialConsistencyTester::new(init.clone());
        let mut failed = false;
        let mut i = 0;
        let mut used = 0;
        while i < h.events.len() {
            let e = &h.events[i];
            let pair = e.invoke && h.events.get(i + 1).map(|n| !n.invoke && n.thread == e.thread).unwrap_or(false);
            let upto = if pair { i + 1 } else { i };
            let expect_err = failed || parse::<K>(&h.events[..=upto]).is_err();
            let (rl, rs) = if pair {
                used += 1;
                let n = &h.events[i + 1];
                (lin2.on_invret(e.thread, K::op(e.code), K::ret(n.code)).map(|_| ()), sc2.on_invret(e.thread, K::op(e.code), K::ret(n.code)).map(|_| ()))
            } else if e.invoke {
                (lin2.on_invoke(e.thread, K::op(e.code)).map(|_| ()), sc2.on_invoke(e.thread, K::op(e.code)).map(|_| ()))
            } else {
                (lin2.on_return(e.thread, K::ret(e.code)).map(|_| ()), sc2.on_return(e.thread, K::ret(e.code)).map(|_| ()))
            };
            if rl.is_err() != expect_err || rs.is_err() != expect_err {
                v.push(Violation::new("C14", "invret", format!("events up to {}: fed through on_invret where possible, the testers returned {:?} / {:?}, expected {}", upto, rl, rs, if expect_err { "Err" } else { "Ok" })));
                v.push(Violation::new("C08", "invret", format!("events up to {}: fed through on_invret where possible, the linearizability tester returned {:?}, expected {}", upto, rl, if expect_err { "Err" } else { "Ok" })));
                break;
            }
            failed |= expect_err;
            i = upto + 1;
        }
        if used > 0 && v.is_empty() {
            c.inc("histories_fed_through_on_invret");
            if failed {
                if lin2.is_consistent() || sc2.is_consistent() {
                    v.push(Violation::new("C14", "invret", "an ill-formed history fed through on_invret is still reported consistent".to_string()));
                    v.push(Violation::new("C08", "invret", "an ill-formed history fed through on_invret is still reported consistent".to_string()));
                }
            } else if lin2 != lin || sc2 != sc {
                v.push(Violation::new("C14", "invret", format!("fed through on_invret the testers differ from those fed event by event: {:?} vs {:?}", sc2, sc)));
                v.push(Violation::new("C08", "invret", format!("fed through on_invret the tester differs from the one fed event by event: {:?} vs {:?}", lin2, lin)));
            }
        }
    }
    Judged { violations: v, counters: c }
}

// ---------------------------------------------------------------------------------------------
// C18 (first half): reference objects

pub fn judge_spec<K: Kind>(h: &History, rng: &mut Rng) -> Judged {
    let mut v = Vec::new();
    let mut c = Counters::default();
    let init = K::init(h.init);
    // the operations of the history in event order, applied sequentially
    let ops: Vec<Code> = h.events.iter().filter(|e| e.invoke).map(|e| e.code).collect();
    let mut obj = init.clone();
    let mut seq: Vec<(K::Op, K::Ret)> = Vec::new();
    let mut seq_wrong_at: Option<usize> = None;
    for (i, oc) in ops.iter().enumerate() {
        let op = K::op(*oc);
        let mut a = obj.clone();
        let actual = a.invoke(&op);
        // the actual return and a perturbed one
        let perturbed = K::ret(K::wrong_ret(rng, K::ret_code(&actual)));
        for ret in [actual.clone(), perturbed] {
            let mut b = obj.clone();
            let valid = b.is_valid_step(&op, &ret);
            let expect = actual == ret;
            c.inc("spec_steps_checked");
            if valid != expect {
                v.push(Violation::new("C18", format!("step-vs-invoke:{}", h.spec), format!("is_valid_step({:?}, {:?}) on {:?} is {}, invoking returns {:?}", op, ret, obj, valid, actual)));
            } else if valid && b != a {
                v.push(Violation::new("C18", format!("step-vs-invoke:{}", h.spec), format!("after the valid step ({:?}, {:?}) the object is {:?}, after invoking it is {:?}", op, ret, b, a)));
            }
        }
        // build a sequence for is_valid_history, possibly with one wrong return
        if seq_wrong_at.is_none() && rng.chance(1, 6) {
            seq_wrong_at = Some(i);
            seq.push((op, K::ret(K::wrong_ret(rng, K::ret_code(&actual)))));
        } else {
            seq.push((op, actual));
        }
        obj = a;
    }
    // is_valid_history accepts exactly the sequences obtained by invoking from the initial object
    let mut replay = init.clone();
    let expect = seq.iter().all(|(op, ret)| replay.invoke(op) == *ret);
    let got = init.clone().is_valid_history(seq.clone());
    c.inc("spec_histories_checked");
    if got != expect {
        v.push(Violation::new("C18", format!("history-vs-invoke:{}", h.spec), format!("is_valid_history({:?}) from {:?} is {}, invoking from the initial object gives {}", seq, init, got, expect)));
    }
    Judged { violations: v, counters: c }
}

// ---------------------------------------------------------------------------------------------

pub const SPECS: [&str; 4] = ["register", "woregister", "vec", "tas"];

fn dispatch<R>(spec: &str, f_reg: impl FnOnce() -> R, f_wo: impl FnOnce() -> R, f_vec: impl FnOnce() -> R, f_tas: impl FnOnce() -> R) -> R {
    match spec {
        "register" => f_reg(),
        "woregister" => f_wo(),
        "vec" => f_vec(),
        _ => f_tas(),
    }
}

pub fn gen(seed: u64, focus: &str) -> History {
    let mut rng = Rng::new(seed);
    let specs: &[&str] = if focus == "C18" { &["register", "woregister", "vec"] } else { &SPECS };
    let spec = *rng.pick(specs);
    dispatch(spec, || gen_history::<KReg>(spec, &mut rng.clone()), || gen_history::<KWo>(spec, &mut rng.clone()), || gen_history::<KVec>(spec, &mut rng.clone()), || gen_history::<KTas>(spec, &mut rng.clone()))
}

pub fn execute(focus: &str, h: &History) -> (Vec<Violation>, Counters) {
    let mut rng = Rng::new(crate::rng::hash_str(&format!("{:?}", h.events)));
    let j = if focus == "C18" {
        dispatch(&h.spec, || judge_spec::<KReg>(h, &mut rng.clone()), || judge_spec::<KWo>(h, &mut rng.clone()), || judge_spec::<KVec>(h, &mut rng.clone()), || judge_spec::<KTas>(h, &mut rng.clone()))
    } else {
        dispatch(&h.spec, || judge::<KReg>(h), || judge::<KWo>(h), || judge::<KVec>(h), || judge::<KTas>(h))
    };
    let mut c = j.counters;
    c.inc(&format!("spec_{}", h.spec));
    c.add("history_events", h.events.len() as u64);
    (j.violations.into_iter().filter(|x| x.property == focus).collect(), c)
}

fn report(h: &History, v: Vec<Violation>, c: Counters) -> RunReport {
    let sig = crate::rng::hash_str(&format!("{}{}{:?}", h.spec, h.init, h.events));
    RunReport { violations: v, counters: c, signature: sig, nontrivial: h.events.len() >= 3, sim_time_ns: 0, steps: h.events.len() as u64, case_hashes: vec![sig] }
}

pub fn run_case(focus: &str, seed: u64) -> (RunReport, Value) {
    let h = gen(seed, focus);
    let (v, c) = execute(focus, &h);
    (report(&h, v, c), serde_json::to_value(&h).unwrap())
}

pub fn replay(focus: &str, scenario: &Value) -> Result<RunReport, String> {
    let h: History = serde_json::from_value(scenario.clone()).map_err(|e| e.to_string())?;
    let (v, c) = execute(focus, &h);
    Ok(report(&h, v, c))
}

pub fn summary(scenario: &Value) -> Value {
    scenario.clone()
}

pub fn shrink_candidates(scenario: &Value) -> Vec<Value> {
    let Ok(h) = serde_json::from_value::<History>(scenario.clone()) else { return vec![] };
    let mut out = Vec::new();
    for i in (0..h.events.len()).rev() {
        let mut s = h.clone();
        s.events.remove(i);
        out.push(s);
    }
    // remove an invoke together with its return
    for i in 0..h.events.len() {
        if h.events[i].invoke {
            if let Some(j) = (i + 1..h.events.len()).find(|j| h.events[*j].thread == h.events[i].thread && !h.events[*j].invoke) {
                let mut s = h.clone();
                s.events.remove(j);
                s.events.remove(i);
                out.push(s);
            }
        }
    }
    out.into_iter().map(|s| serde_json::to_value(&s).unwrap()).collect()
}
