#!/usr/bin/env python3
"""Writes /verif/MANIFEST.json from the table below (kept next to the checks so they stay in sync)."""
import json, subprocess, os

HERE = os.path.dirname(os.path.dirname(os.path.abspath(__file__)))

def repo_commits(prefix):
    out = subprocess.run(["git", "-C", "/repo", "log", "--format=%h %s"], capture_output=True, text=True).stdout
    return [l.split()[0] for l in out.splitlines() if l.split(" ", 1)[1].startswith(prefix)]

S1_NOTE = ("Trusted base: the baton scheduler and shims (src/verif_hooks.rs in /repo, dsim/src/sched.rs), the graph generator "
           "and the independent reference analysis (dsim/src/s1/graph.rs). Granularity: one scheduling point per hooked "
           "operation (mutex, condvar, DashMap/DashSet call, atomic, channel, sleep, clock read); interleavings inside those "
           "primitives and weak-memory effects are not explored. Sampled search over seeds, not a proof.")

S2_NOTE = ("Trusted base: the reference stepper (dsim/src/s2/reference.rs, transcribed from the statements of C06/C07/C09, appendix C of "
           "DESIGN.md), the canonical dump that reads the public fields of ActorModelState/Network, and the script-actor handler tables "
           "(shared between the real Actor impl and the reference: they are the workload). No threads or clocks are involved in the actor "
           "model, so the simulator's choices are: the generated system, and which enabled action (delivery, drop, timer, crash, random "
           "selection) happens next. Sampled search over seeds, not a proof.")

S4_NOTE = ("Trusted base: the history generator (simulated clients and object with seeded linearization points and injected faults) and the "
           "exhaustive search over the definition (dsim/src/s4/mod.rs). Histories are bounded (<= 8 operations, <= 4 threads) so that the "
           "search is exact. Sampled over seeds, not a proof.")

CHECKS = {
 "C01": ("Seeded search over generated finite models x checker configurations x schedules: the real BFS/DFS/on-demand checkers run with 1-4 workers under a deterministic scheduler that owns every synchronisation point; the multiset of states shown to the visitor is compared with an independent reachability analysis, every visitor path is re-executed. Right level because the claim is over all graphs, configurations and interleavings: exhaustive enumeration is impossible, while sampled deterministic schedules reach lost/duplicated work that a single OS schedule never shows.", "5/C01", S1_NOTE, "deterministic simulation (seeded schedule search) + reference reachability oracle"),
 "C02": ("As C01 with 1-5 always/sometimes properties labelled on the states; verdicts compared in both directions with the reference reachable set after completed exhaustive runs; assert_properties/is_done cross-checked (also right after spawn: a positive verdict before is_done is a violation); on-demand runs serve 1-5 check_fingerprint requests before run-to-completion; one run in six is DFS with and without symmetry on symmetric process models with several initial states and a boundary.", "5/C02", S1_NOTE, "deterministic simulation + reference verdict oracle"),
 "C03": ("All five strategies (incl. simulation with uniform/adversarial choosers), all finish conditions, targets, depth limits, expiring timeouts, 1-4 workers: every path of discoveries() after join is re-executed against the generated graph and checked to be a genuine witness (eventually: never satisfied and maximal, or closing a cycle for simulation). A diamond mode races 2-3 workers on DAG joins whose parents disagree on an eventually-property; one run in eight checks DFS / simulation paths under symmetry reduction.", "5/C03", S1_NOTE, "deterministic simulation + witness re-execution oracle"),
 "C05": ("2-4 workers, block sizes 1-8, random/PCT/round-robin schedules, stalls, panics injected into model code and the visitor, timeouts: deadlock is detected exactly by the scheduler, termination is judged against a step budget, the evaluated set and verdicts are compared with the single-threaded run of the same workload, a worker panic must surface from join. Further modes: the job market alone driven by synthetic workers (early exits, panics); effectively unbounded chains with a panicking side branch or an expiring timeout (fair schedule from the moment the stop reason exists); the checker dropped without join; bursts of 70-200 on-demand requests.", "5/C05", S1_NOTE, "deterministic simulation with fault injection (schedules, stalls, panics) + deadlock detection"),
 "C11": ("Eventually-properties on forests and general graphs, all strategies/threads: a reported counterexample requires a maximal never-satisfying path in the reference graph; on forests with completed exhaustive runs the converse is demanded too.", "5/C11", S1_NOTE, "deterministic simulation + reference maximal-path oracle"),
 "C12": ("Cross product of finish condition x targets x depth x timeout x threads x strategy sampled swarm-style under a virtual clock (stalls, wall-clock jumps, effectively unbounded counter models): matches() vs reference predicate, justified early stops, target/depth limits, bounded liveness after timeout expiry stated in fair scheduler steps once faults stop, no thread blocked on a lock whose owner sleeps, seed replay of the first simulation trace (also with symmetry reduction on symmetric models). Generated states are counted on the model side as well, a target-only mode has several out-of-boundary initial states.", "5/C12", S1_NOTE, "deterministic simulation with virtual time + bounded-liveness oracle"),
 "C19": ("The real on-demand checker (1-3 workers) runs under the scheduler behind the Explorer's request handlers (called through a cfg-gated facade, no HTTP): a simulated browser thread issues a seeded script of states / status / check_fingerprint requests (valid, mutated and unparsable fingerprint paths; pending and bogus states) between quiescent points while other browser threads poll status, then run-to-completion. states must list exactly the model's actions with successor states and fingerprints (ignored actions without), 404 <=> no execution; status counts must lie between the checker's counts around the call and every property path decode to a genuine witness; a requested pending state must be evaluated and its successors generated; after run-to-completion is_done and evaluated set / verdicts (eventually: exact on forests) equal the reference; some models mute format_step. Path API (from_actions, encode, into_*, from_fingerprints, final_state) is compared with a reference walk. The HTTP server, its routing match and ui/app.js are not executed.", "5/C19", S1_NOTE, "deterministic simulation (scheduler-controlled browser and worker threads) + reference model oracle"),
 "C13": ("Single-worker BFS with every block size on generated graphs: visit depths must be non-decreasing and equal the reference shortest distance; always/sometimes witness length equals the shortest distance to a witnessing state. Weakest fit for the technique (no interleaving beyond harness vs worker): the simulator contributes seeded programs, the block-boundary knob and replay.", "5/C13", S1_NOTE, "deterministic simulation (seeded programs) + shortest-path oracle"),
 "C04": ("Seeded fault-heavy walks of generated actor systems (crashes, timers, random choices, drops, all network kinds); every reached state, a perturbed rebuild (shuffled insertion, other hasher keys, spare capacity, remove+reinsert) and its neighbours (crash flag flipped, timer/choice moved to the adjacent actor, message removed), plus container families (sets/maps side by side and nested, Vec<Timers>, VectorClock with trailing zeros, DenseNatMap) go through: equal canonical dump => equal fingerprint, different dump => different sequence of typed Hasher calls (a certain collision whatever the hash function), == <=> equal dump. The perturbation half is seeded value generation around states the simulation reached and is labelled so in the evidence.", "5/C04", S2_NOTE, "deterministic simulation (seeded fault walks) + recording-hasher identity oracle"),
 "C06": ("Real ActorModel::actions/next_state driven by seeded fault-biased walks in lockstep with an independent reference stepper; at every step the sets of effective (action, successor) pairs must be equal and every successor equal component by component (actor state, network, timers, choices, crash flags, history order).", "5/C06", S2_NOTE, "deterministic simulation (seeded fault walks) + lockstep reference model"),
 "C07": ("As C06 on traffic-heavy systems (repeated identical messages, several per flow, initial contents, drops, redeliveries) for the three network kinds x lossy: content equals the reference flows/multiset/set after every step; deliverable set, drop offers, len(), iter_all() (consumed with a hard cap so a non-terminating iterator is a finding, not a hang) and iter_deliverable() agree with the content.", "5/C07", S2_NOTE, "deterministic simulation (message-fault walks) + reference network model"),
 "C09": ("As C06 with crash budgets 1-2 and crashes forced right after a send to the victim, with timers armed and choices pending: crash offered <=> actor up and fewer than k down; crash only sets the flag and clears the victim's timers/choices; no step of a crashed actor is ever effective, deliveries to it leave the message in place, and every step of an actor that is up stays possible. One run in six is the real BFS/DFS (1-3 workers, under the scheduler) on a small system, whose visited states must equal the reference reachable set; the builder order (budget before / after the actors) is randomised.", "5/C09", S2_NOTE, "deterministic simulation (crash-point injection) + reference crash semantics"),
 "C10": ("S2 half: representative() of every state reached by seeded walks equals the state permuted by the stable argsort of the actor states (actor order, envelope endpoints, ids inside messages/history/local state, timers, crash flags, choices), computed by harness code; plans built by sorting vectors with ties (up to 300 values) and every provided container (Vec, VecDeque, BTreeSet/Map, hashable set/map, Option, tuple, Arc, DenseNatMap, RandomChoices) rewritten under them are compared with the stable sorting permutation. Checker half (one run in four): DFS with / without symmetry and simulation with symmetry on symmetric process models (several initial states, boundary) under the scheduler: verdicts, counts vs symmetry classes, paths.", "5/C10", S2_NOTE, "deterministic simulation (seeded walks) + permutation oracle"),
 "C08": ("Concurrent histories are produced by a seeded schedule of simulated client threads against a simulated shared object (correct, or faulty: stale read, lost write, wrong return, duplicated reply, reply without request, re-invocation without waiting), with operations left in flight, and fed event by event to the real LinearizabilityTester; after every event its verdict is compared with an exhaustive search of the definition, any serialization it returns is validated, ill-formed events must give Err and stay rejected. Four specs incl. one using the default is_valid_step.", "5/C08", S4_NOTE, "deterministic simulation of clients/object (seeded histories with faults) + exhaustive definition oracle"),
 "C14": ("As C08 for the SequentialConsistencyTester (no real-time filter), plus: every prefix accepted by the linearizability tester is accepted by this one, and a clone of either tester taken before an event is unchanged after the original moved on.", "5/C14", S4_NOTE, "deterministic simulation of clients/object + exhaustive definition oracle"),
 "C15": ("A bare actor system and the same system wrapped in an adapter (Choice<A,Never>, Choice<A1,A2> in L/R positions, three-level nesting, RegisterActor::Server, WORegisterActor::Server; Vec client vs a reference client) are walked in lockstep by a seeded walker over messages, timers, random choices, drops and crashes; effective steps must correspond one to one and successor states be equal modulo the wrapper constructor.", "5/C15", S2_NOTE, "deterministic simulation (seeded lockstep walks) + isomorphism oracle"),
 "C16": ("2-3 link-wrapped actors exchange uniquely numbered messages over duplicating / non-duplicating / ordered networks with loss; a seeded walker chooses deliveries, drops, reorderings and resend-timer firings, then a quiescence phase (no more faults, fair deliveries and resends) drains the links. At every state the sequence handed to each wrapped receiver must be a prefix of what was sent to it, an un-handed message must still be pending acknowledgement, and with nothing pending the sequences are equal. Hand-overs are observed at the wrapped actor's own on_msg.", "5/C16", S2_NOTE, "deterministic simulation with message-fault injection + prefix/exactly-once oracle"),
 "C17": ("The real actor::spawn() loop runs 1-4 instrumented script actors as simulation threads on virtual UDP sockets bound to seeded IPv4 addresses, under the baton scheduler and the virtual clock, with injected datagram drop / duplication / delay and reordering / send and receive errors / junk, empty and foreign datagrams / stalls, and timer scripts with set, cancel and re-arm sequences over ranges with start == end and start < end. The merged handler log and socket-seam log must satisfy: on_start first and once; each on_msg matches injectively a datagram already delivered to that socket, with the deserialized payload and Id::from(sender address); each handler's sends appear on its socket in emission order before its next handler; timers fire only while armed and no earlier than arming + range.start; state threading; Id <-> SocketAddrV4 round trips. The simulated codec is length-tolerant, has one unserializable message, one message with a zero-byte encoding and blobs of up to 12 000 bytes. Safety only: that armed timers do fire and that delivered datagrams are handed over are probes.", "5/C17", S1_NOTE.replace("the graph generator and the independent reference analysis (dsim/src/s1/graph.rs)", "the virtual UDP/clock (dsim/src/sched.rs) and the log oracle (dsim/src/s3/mod.rs)"), "deterministic simulation (virtual UDP, virtual clock, fault injection) + log-matching oracle"),
 "C18": ("Spec half: operation sequences from generated histories are applied to Register / WORegister / Vec; is_valid_step is compared with invoke for the actual and a perturbed return (and the resulting object state after a valid step), is_valid_history with invoking from the initial object. Harness half: seeded walks (deliveries, drops, crashes) of systems built from RegisterActor / WORegisterActor clients with the record_invocations / record_returns hooks around servers that answer each request at most once (direct, forwarding, delaying, silent; 1-2 servers, 1-3 clients, all network kinds); per client at most one outstanding request with a fresh id, and the recorded tester must equal a shadow tester fed with exactly the client-visible sends and accepted replies.", "5/C18", S4_NOTE + " " + S2_NOTE, "deterministic simulation (seeded histories and harness walks) + shadow-history oracle"),
}


# what rounds 4 and 5 of the seeded regressions added to each check (appended to the level text)
ADD = {
 "C01": " One run in 2000 explores a wide fan (2201-16601 states).",
 "C02": " A quarter of the runs wait through join_and_report / report (the reporter's classification must fit the property kind); discovery(name), assert_any_discovery and assert_no_discovery are compared with discoveries(); one model in 40 has 62-79 properties.",
 "C03": " Paths handed to a Reporter by report / join_and_report are judged like those of discoveries(); the symmetric process models carry eventually-properties and use symmetry() or symmetry_fn(); one model in 40 has 62-79 properties.",
 "C04": " Both consistency testers are in the pool, built from the same per-thread scripts under different interleavings, with an independent rendering of what each must distinguish.",
 "C05": " A quarter of the runs wait through join_and_report / report (std::thread::scope and std::sync::Mutex are simulation-aware since hook commit 7ed06bd); simulation runs that only the finish condition can stop; time passes between .timeout() and the spawn; every simulation process is pinned to one core so that available_parallelism is the same in workers, while shrinking and in replays.",
 "C06": " Handlers also use Out::broadcast (empty, with repeats) and, rarely, emit 21-48 commands; crash budgets up to usize::MAX.",
 "C07": " Initially empty networks are selected by name (Network::from_str); one run in 25 starts from 22-45 interleaved envelopes.",
 "C08": " Clients may crash with an invocation in flight that may or may not have taken effect; on_invret is exercised and compared with event-by-event recording.",
 "C09": " One run in 12 has an unlimited crash budget (usize::MAX and neighbours).",
 "C10": " Plan checks also cover WORegisterMsg, WORegisterActorState and Envelope.",
 "C11": " One run in 8 is DFS with / without symmetry and simulation with symmetry on symmetric process models with eventually-properties; many-property models contain eventually-properties exactly 64 positions apart.",
 "C12": " Time passes between .timeout(d) and the spawn in a third of the runs with a timeout; simulation runs that only the finish condition can stop; a quarter of the runs wait through join_and_report / report.",
 "C13": " One run in 2000 explores a wide fan (a breadth-first level of 1100-8300 states).",
 "C14": " Copies are also made with clone_from onto fresh, invalidated and one-event-behind testers and must equal their source and answer alike; on_invret is exercised and compared with event-by-event recording; crashing clients.",
 "C15": " Also compared action by action: whether each system takes the action at all (a self-loop is a transition, an ignored action is none); representative() of the wrapped and the bare WORegister system at every step; broadcasts and long handler outputs.",
 "C16": " Wrapped actors include stateless responders (answer without touching their state).",
 "C17": " Payloads end in opaque bytes (line terminators, NUL, 0xff) and are matched by digest; handler outputs of up to ~140 commands around a set-then-cancel of one timer; the socket must be bound to the address the id encodes; one run in eight injects a handler panic, after which the actor must stay silent.",
 "C18": " Client-visible calls are also derived from the clients' own state (a client awaiting a new request id has made a call).",
 "C19": " One run in 500 is NOT simulated: CheckerBuilder::serve is started on a loopback port in a real thread and the harness speaks HTTP/1.0 to it (routing, states along the reference walk and mutations of it, 404s, run-to-completion, status); only the content of replies that arrive is judged, slowness and I/O problems are probes.",
}

PENDING = {
}

NOT_APPLICABLE = {
 "C20": "Pure algebraic laws over VectorClock/DenseNatMap values: no schedule, clock, fault, I/O or interleaving for a simulator to control (VectorClock is used nowhere else in the crate; DenseNatMap only as the carrier of rewrite plans, which C10 covers). Deterministic simulation could only act as a value generator here, so it is not claimed rather than switching technique.",
}

def main():
    props = [json.loads(l)["id"] for l in open(os.path.join(HERE, "properties.jsonl"))]
    checks = []
    for pid in props:
        if pid in CHECKS:
            text, ref, note, tech = CHECKS[pid]
            text = text + ADD.get(pid, "")
            checks.append({
                "property_id": pid,
                "quick_cmd": f"./check {pid} --tier quick",
                "thorough_cmd": f"./check {pid} --tier thorough",
                "evidence_file": f"/verif/evidence/{pid}.json",
                "replay_cmd_template": "./check --replay {path}",
                "engine": "dsim",
                "level_claimed": {"category": "exploration", "text": text, "design_ref": ref},
                "level_note": note,
                "technique": tech,
            })
    na = []
    for pid in props:
        if pid not in CHECKS:
            reason = NOT_APPLICABLE.get(pid) or PENDING.get(pid) or "check not built yet in this session (planned, see DESIGN.md section 5); not claimed until it runs"
            na.append({"property_id": pid, "reason": reason})
    m = {
        "version": 1,
        "setup_cmd": "./check --build && ./check selftest-determinism --runs 60",
        "hooks": {
            "guard": "--cfg getong_stateright_verif",
            "enable": "dsim/.cargo/config.toml sets rustflags --cfg getong_stateright_verif (and --cfg getrandom_backend=\"custom\" for the ahash seam); dsim depends on stateright by path /repo, so every check rebuilds /repo's working tree with the hooks on",
            "baseline_off_cmd": "cd /repo && cargo test --workspace --no-fail-fast --offline",
            "source_commits": repo_commits("verif hooks"),
            "add_only": True,
        },
        "engines": [{
            "name": "dsim", "path": "/verif/dsim",
            "serves_properties": sorted(CHECKS.keys()),
            "kind_free_text": "deterministic simulator: baton scheduler over real threads, virtual clock, virtual channels/UDP, seeded workload and fault generation, reference-model oracles, shrinking, replay files",
        }],
        "checks": checks,
        "not_applicable": na,
        "notes": "Exit codes of every command: 0 held, 1 violation (VIOLATION property=<id> replay=<path>), 2 harness error (never a verdict). VERIF_SEED selects the batch of run seeds (default 20260923). Known findings: /verif/known_findings.json. Genuine defects repaired in /repo: commits " + ", ".join(repo_commits("fix:")) + ".",
    }
    json.dump(m, open(os.path.join(HERE, "MANIFEST.json"), "w"), indent=1)
    print("MANIFEST.json:", len(checks), "checks,", len(na), "not claimed")

main()
