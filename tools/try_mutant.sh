#!/bin/bash
# Applies a patch to /repo, runs the given checks, and always reverts /repo afterwards.
#   tools/try_mutant.sh <patch.diff> <PROP> [<PROP>...] [-- extra args for ./check]
# Prints one line per property: CAUGHT / MISSED / HARNESS-ERROR.
patch="$(realpath "$1")"; shift
props=(); extra=()
while [ $# -gt 0 ]; do
  if [ "$1" = "--" ]; then shift; extra=("$@"); break; fi
  props+=("$1"); shift
done
cd /verif || exit 2
if [ -n "$(git -C /repo status --porcelain -- src Cargo.toml)" ]; then echo "refusing: /repo has local changes"; exit 2; fi
trap 'git -C /repo checkout -- . ; git -C /repo clean -fdq -- src tests 2>/dev/null' EXIT
git -C /repo apply "$patch" || { echo "patch does not apply"; exit 2; }
for p in "${props[@]}"; do
  out=$(./check "$p" --tier quick "${extra[@]}" 2>&1); rc=$?
  case $rc in
    0) echo "MISSED  $p  $(echo "$out" | tail -1)";;
    1) echo "CAUGHT  $p  $(echo "$out" | grep -A1 '^VIOLATION' | head -2 | tr '\n' ' ' | cut -c1-400)";;
    *) echo "HARNESS-ERROR $p rc=$rc $(echo "$out" | tail -5 | tr '\n' ' ' | cut -c1-600)";;
  esac
done
