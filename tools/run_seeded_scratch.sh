#!/bin/bash
# Re-runs seeded regressions against a scratch copy (a git worktree of /repo's HEAD plus a copy of
# dsim pointing at it), so that /repo and /verif stay free. One line per regression in <out>.
#   usage: run_seeded_scratch.sh <slot-dir> <out-file> <id>...
slot="$1"; out="$2"; shift 2
export CARGO_NET_OFFLINE=true
mkdir -p "$slot/out/evidence"
[ -d "$slot/repo" ] || git -C /repo worktree add --detach "$slot/repo" HEAD >/dev/null 2>&1
git -C "$slot/repo" checkout -q --detach "$(git -C /repo rev-parse HEAD)"
mkdir -p "$slot/dsim"
rsync -a --delete --exclude target /verif/dsim/ "$slot/dsim/"
sed -i "s#path = \"/repo\"#path = \"$slot/repo\"#" "$slot/dsim/Cargo.toml"
cp /verif/known_findings.json "$slot/out/"
for id in "$@"; do
  d=/verif/seeded/$id; prop=${id%%-*}
  owner=$(python3 -c "
import json,re
import os
m=json.load(open('$d/meta.json')) if os.path.exists('$d/meta.json') else {'result':''}; mm=re.search(r'CAUGHT by (C[0-9]+)', m['result']); print(mm.group(1) if mm else '$prop')")
  git -C "$slot/repo" checkout -q -- . ; git -C "$slot/repo" clean -fdq -- src tests 2>/dev/null
  if ! git -C "$slot/repo" apply "$d/patch.diff"; then echo "$id PATCH-DOES-NOT-APPLY" >> "$out"; continue; fi
  if ! ( cd "$slot/dsim" && cargo build --release --offline >build.log 2>&1 ); then echo "$id HARNESS-ERROR build failed" >> "$out"; continue; fi
  o=$(cd "$slot/dsim" && VERIF_DIR="$slot/out" target/release/dsim check "$owner" --tier quick 2>&1); rc=$?
  case $rc in
    0) echo "$id MISSED  $owner  $(echo "$o" | tail -1 | cut -c1-150)" >> "$out";;
    1) echo "$id CAUGHT  $owner  $(echo "$o" | grep -A1 '^VIOLATION' | head -2 | tail -1 | cut -c1-160)" >> "$out";;
    *) echo "$id HARNESS-ERROR $owner rc=$rc $(echo "$o" | tail -3 | tr '\n' ' ' | cut -c1-300)" >> "$out";;
  esac
done
git -C "$slot/repo" checkout -q -- .
