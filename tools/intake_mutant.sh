#!/bin/bash
# Confirms a sub-agent's mutant in its scratch worktree and, when confirmed, copies it to
# /verif/seeded/<PROP>-m<next>/ (patch.diff, demo.rs, agent_meta.md, confirm.txt).
#   usage: intake_mutant.sh <PROP> <worktree> <m1|m2>      prints the new id on the last line
prop="$1"; wt="$2"; m="$3"
d="$wt/mutants/$m"
[ -f "$d/patch.diff" ] && [ -f "$d/demo.rs" ] || { echo "missing files in $d"; exit 2; }
out=$("$(dirname "$0")/confirm_mutant.sh" "$wt" "$m" 2>&1)
echo "$out"
echo "$out" | grep -q "suite(with): test result: FAILED. 84 passed; 3 failed" || { echo "NOT-CONFIRMED: suite not at baseline"; exit 1; }
echo "$out" | grep "demo(with):" | grep -qE "FAILED|error" || { echo "NOT-CONFIRMED: demo does not fail with the patch"; exit 1; }
echo "$out" | grep "demo(clean):" | grep -q "test result: ok" || { echo "NOT-CONFIRMED: demo does not pass on the clean tree"; exit 1; }
n=1; while [ -d "/verif/seeded/$prop-m$n" ]; do n=$((n+1)); done
id="$prop-m$n"; dst="/verif/seeded/$id"
mkdir -p "$dst"
cp "$d/patch.diff" "$dst/patch.diff"; cp "$d/demo.rs" "$dst/demo.rs"
[ -f "$d/notes.md" ] && cp "$d/notes.md" "$dst/agent_meta.md"
echo "$out" > "$dst/confirm.txt"
rm -f "$wt/tests/demo_$m.rs"
echo "$id"
