#!/bin/bash
# Confirms a sub-agent's mutant in its scratch worktree: suite matches the baseline with the patch,
# the demo fails with it and passes without it.  usage: confirm_mutant.sh <worktree> <m1|m2>
wt="$1"; m="$2"; d="$wt/mutants/$m"
export CARGO_NET_OFFLINE=true CARGO_TARGET_DIR="$wt/target"
cd "$wt" || exit 2
git checkout -q -- src; 
git apply --check "$d/patch.diff" || { echo "PATCH-DOES-NOT-APPLY"; exit 1; }
git apply "$d/patch.diff"
mkdir -p tests; cp "$d/demo.rs" "tests/demo_$m.rs"
suite=$(cargo test --offline --lib 2>&1 | grep -E "^test result" | head -1)
demo_with=$(cargo test --offline --test "demo_$m" 2>&1 | grep -E "^test result|error(\[|:)" | head -2 | tr '\n' ' ')
git checkout -q -- src
demo_without=$(cargo test --offline --test "demo_$m" 2>&1 | grep -E "^test result|error(\[|:)" | head -2 | tr '\n' ' ')
echo "suite(with): $suite"
echo "demo(with):  $demo_with"
echo "demo(clean): $demo_without"
