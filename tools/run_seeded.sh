#!/bin/bash
# Runs every seeded regression against the check of the property it breaks (and, where meta.json
# names another owner, that one). Writes seeded/RESULTS.txt. /repo is reverted after each.
cd /verif || exit 2
: > seeded/RESULTS.txt
for d in seeded/*/; do
  id=$(basename "$d"); prop=${id%%-*}
  owner=$(python3 -c "
import json,re,sys
m=json.load(open('$d/meta.json'))
r=m['result']
# first 'CAUGHT by Cxx' names the owner check
mm=re.search(r'CAUGHT by (C[0-9]+)', r)
print(mm.group(1) if mm else '$prop')")
  line=$(tools/try_mutant.sh "$d/patch.diff" "$owner" 2>&1 | tail -1 | cut -c1-200)
  echo "$id $line" | tee -a seeded/RESULTS.txt
done
